//! C04 monitor: every public constructor over the special-value lattice of its argument types,
//! judged against the documented error conditions (DESIGN.md Appendix A).
use crate::common::*;
use crate::rng::Xo;
use serde_json::{Value, json};
use std::collections::BTreeMap;
use std::fmt::Debug;
use std::sync::atomic::Ordering;

/// Expectation for one call: `spec = false` means the documentation leaves the point open.
pub struct Expect {
    pub spec: bool,
    /// error variants whose documented condition holds (empty => Ok expected)
    pub allowed: Vec<&'static str>,
}
impl Expect {
    fn ok() -> Self {
        Expect { spec: true, allowed: vec![] }
    }
    fn unspecified() -> Self {
        Expect { spec: false, allowed: vec![] }
    }
}

pub struct Tally {
    pub ctor: &'static str,
    pub profile: String,
    pub calls: u64,
    pub ok: u64,
    pub err: BTreeMap<String, u64>,
    pub unspecified: u64,
    pub viol: BTreeMap<String, u64>,
    pub emitted: BTreeMap<String, u64>,
    pub accessor_checks: u64,
}
impl Tally {
    fn new(ctor: &'static str, profile: &str) -> Self {
        Tally { ctor, profile: profile.to_string(), calls: 0, ok: 0, err: BTreeMap::new(), unspecified: 0, viol: BTreeMap::new(), emitted: BTreeMap::new(), accessor_checks: 0 }
    }
    fn violation(&mut self, kind: String, args: &str, detail: String) {
        *self.viol.entry(kind.clone()).or_insert(0) += 1;
        let e = self.emitted.entry(kind.clone()).or_insert(0);
        if *e < 3 {
            *e += 1;
            emit(&json!({"ev": "viol", "ctor": self.ctor, "kind": kind, "args": args, "detail": detail, "profile": self.profile}));
        }
    }
    /// judge one constructor result
    pub fn judge<T, E: Debug>(&mut self, args: &str, res: Caught<Result<T, E>>, exp: Expect) -> Option<T> {
        self.calls += 1;
        tick();
        match res {
            Caught::Panic(m) => {
                self.violation(format!("panic:{}", norm_panic(&m)), args, m);
                None
            }
            Caught::Ok(Ok(v)) => {
                self.ok += 1;
                if !exp.spec {
                    self.unspecified += 1;
                } else if !exp.allowed.is_empty() {
                    self.violation(format!("ok_but_documented_error:{}", exp.allowed.join("|")), args, String::new());
                }
                Some(v)
            }
            Caught::Ok(Err(e)) => {
                let name = format!("{e:?}");
                *self.err.entry(name.clone()).or_insert(0) += 1;
                if !exp.spec {
                    self.unspecified += 1;
                } else if exp.allowed.is_empty() {
                    self.violation(format!("err_but_no_documented_condition:{name}"), args, String::new());
                } else if !exp.allowed.iter().any(|a| *a == name) {
                    self.violation(format!("wrong_variant:{name}:expected:{}", exp.allowed.join("|")), args, String::new());
                }
                None
            }
            _ => unreachable!(),
        }
    }
    fn accessor(&mut self, what: &str, args: &str, got: u64, want: u64) {
        self.accessor_checks += 1;
        if got != want {
            self.violation(format!("accessor:{what}"), args, format!("got bits {got:x} want {want:x}"));
        }
    }
    fn done(&self) {
        emit(&json!({"ev": "ctor", "ctor": self.ctor, "profile": self.profile, "calls": self.calls, "ok": self.ok, "err": self.err,
            "unspecified": self.unspecified, "viol": self.viol, "accessor_checks": self.accessor_checks}));
        flush();
    }
}

macro_rules! float_ctor_mod {
    ($m:ident, $F:ty, $B:ty) => {
        pub mod $m {
            use super::*;
            use rand_distr::multi::{Dirichlet, MultiDistribution};
            use rand_distr::*;
            type F = $F;
            fn bits(x: F) -> u64 {
                x.to_bits() as u64
            }
            fn show(x: F) -> String {
                format!("{:e}[{:x}]", x, x.to_bits())
            }
            pub fn lattice(rng: &mut Xo, nrand: usize) -> Vec<F> {
                let one: F = 1.0;
                let up = |x: F| F::from_bits(x.to_bits() + 1);
                let dn = |x: F| F::from_bits(x.to_bits() - 1);
                let maxl = 1.844e19 as F;
                let mut v: Vec<F> = vec![
                    F::NAN, F::INFINITY, F::NEG_INFINITY, 0.0, -0.0,
                    F::from_bits(1), -F::from_bits(1), dn(F::MIN_POSITIVE), F::MIN_POSITIVE, -F::MIN_POSITIVE,
                    F::MAX, -F::MAX, dn(F::MAX),
                    one, -one, up(one), dn(one), 2.0, -2.0, 0.5, up(0.5), dn(0.5), 0.1, up(0.1), dn(0.1),
                    (2.0 / 3.0) as F, up((2.0 / 3.0) as F), dn((2.0 / 3.0) as F), 10.0, 12.0, up(12.0), dn(12.0),
                    maxl, up(maxl), dn(maxl), 1e-3, 1e3, -1.5, 3.0, 1e10, 0.25,
                ];
                for _ in 0..nrand {
                    // half random bit patterns, half moderate magnitudes
                    v.push(F::from_bits(rng.next() as $B));
                    let m = ((rng.unit() * 40.0 - 20.0).exp()) as F;
                    v.push(if rng.next() & 1 == 0 { m } else { -m });
                }
                v
            }
            fn pos(x: F) -> bool {
                x > 0.0
            } // false for NaN
            fn finite_pos(x: F) -> bool {
                x > 0.0 && x.is_finite()
            }

            pub fn run(profile: &str, seed: u64, nrand: usize, deep: bool) {
                let mut rng = Xo::new(seed);
                let lat = lattice(&mut rng, nrand);
                // smaller lattice for the 3- and 4-argument constructors
                let lat3: Vec<F> = if deep { lat.clone() } else { lat.iter().copied().take(41).step_by(1).collect::<Vec<_>>().into_iter().chain(lat.iter().copied().skip(41).take(6)).collect() };
                let tname = stringify!($F);

                // ---- Normal::new, LogNormal::new
                let mut t = Tally::new(concat!("Normal::new<", stringify!($F), ">"), profile);
                let mut t2 = Tally::new(concat!("LogNormal::new<", stringify!($F), ">"), profile);
                for &a in &lat {
                    for &b in &lat {
                        let args = format!("{},{}", show(a), show(b));
                        let exp = || if !b.is_finite() { Expect { spec: true, allowed: vec!["BadVariance"] } } else { Expect::ok() };
                        if let Some(d) = t.judge(&args, guarded(|| Normal::new(a, b)), exp()) {
                            t.accessor("mean", &args, bits(d.mean()), bits(a));
                            t.accessor("std_dev", &args, bits(d.std_dev()), bits(b));
                        }
                        t2.judge(&args, guarded(|| LogNormal::new(a, b)), exp());
                    }
                }
                t.done();
                t2.done();

                // ---- Normal::from_mean_cv
                let mut t = Tally::new(concat!("Normal::from_mean_cv<", stringify!($F), ">"), profile);
                for &a in &lat {
                    for &b in &lat {
                        let args = format!("{},{}", show(a), show(b));
                        let exp = if !b.is_finite() || b < 0.0 {
                            Expect { spec: true, allowed: vec!["BadVariance"] }
                        } else if !a.is_finite() {
                            Expect::unspecified()
                        } else {
                            Expect::ok()
                        };
                        if let Some(d) = t.judge(&args, guarded(|| Normal::from_mean_cv(a, b)), exp) {
                            t.accessor("mean", &args, bits(d.mean()), bits(a));
                            t.accessor("std_dev=cv*mean", &args, bits(d.std_dev()), bits(b * a));
                        }
                    }
                }
                t.done();

                // ---- LogNormal::from_mean_cv
                let mut t = Tally::new(concat!("LogNormal::from_mean_cv<", stringify!($F), ">"), profile);
                for &a in &lat {
                    for &b in &lat {
                        let args = format!("{},{}", show(a), show(b));
                        let mut allowed = vec![];
                        // doc: mean > 0, cv >= 0; exception (0, 0)
                        let mean_bad = a.is_nan() || a < 0.0 || (a == 0.0 && b != 0.0);
                        let cv_bad = b.is_nan() || b < 0.0 || b.is_infinite();
                        if mean_bad {
                            allowed.push("MeanTooSmall");
                        }
                        if cv_bad {
                            allowed.push("BadVariance");
                        }
                        // mean = +inf, and a finite cv whose square overflows (the derived sigma is then not
                        // finite, which is what BadVariance is documented for), are left open
                        let open = (a == F::INFINITY || !(b * b).is_finite()) && !cv_bad && !mean_bad;
                        let exp = if open { Expect::unspecified() } else { Expect { spec: true, allowed } };
                        t.judge(&args, guarded(|| LogNormal::from_mean_cv(a, b)), exp);
                    }
                }
                t.done();

                // ---- one-argument constructors
                let mut te = Tally::new(concat!("Exp::new<", stringify!($F), ">"), profile);
                let mut tc = Tally::new(concat!("ChiSquared::new<", stringify!($F), ">"), profile);
                let mut ts = Tally::new(concat!("StudentT::new<", stringify!($F), ">"), profile);
                let mut tp = Tally::new(concat!("Poisson::new<", stringify!($F), ">"), profile);
                let mut tz = Tally::new(concat!("Zeta::new<", stringify!($F), ">"), profile);
                for &a in &lat {
                    let args = show(a);
                    let exp = if a.is_nan() || a.is_sign_negative() { Expect { spec: true, allowed: vec!["LambdaTooSmall"] } } else { Expect::ok() };
                    te.judge(&args, guarded(|| Exp::new(a)), exp);
                    let half = 0.5 * a;
                    let dof = || if !(half > 0.0) { Expect { spec: true, allowed: vec!["DoFTooSmall"] } } else { Expect::ok() };
                    tc.judge(&args, guarded(|| ChiSquared::new(a)), dof());
                    ts.judge(&args, guarded(|| StudentT::new(a)), dof());
                    let maxl = 1.844e19 as F;
                    let mut allowed = vec![];
                    if !a.is_finite() {
                        allowed.push("NonFinite");
                    }
                    if a <= 0.0 {
                        allowed.push("ShapeTooSmall");
                    }
                    if a.is_finite() && a > maxl {
                        allowed.push("ShapeTooLarge");
                    }
                    // f32: MAX_LAMBDA is not representable; within 1 ulp of it the documentation is moot
                    let near = tname == "f32" && ((a - maxl).abs() <= maxl * 2.4e-7);
                    let exp = if near { Expect::unspecified() } else { Expect { spec: true, allowed } };
                    tp.judge(&args, guarded(|| Poisson::new(a)), exp);
                    let exp = if !(a > 1.0) { Expect { spec: true, allowed: vec!["STooSmall"] } } else { Expect::ok() };
                    tz.judge(&args, guarded(|| Zeta::new(a)), exp);
                }
                te.done();
                tc.done();
                ts.done();
                tp.done();
                tz.done();

                // ---- two-argument constructors
                let mut tg = Tally::new(concat!("Gamma::new<", stringify!($F), ">"), profile);
                let mut tb = Tally::new(concat!("Beta::new<", stringify!($F), ">"), profile);
                let mut tf = Tally::new(concat!("FisherF::new<", stringify!($F), ">"), profile);
                let mut tca = Tally::new(concat!("Cauchy::new<", stringify!($F), ">"), profile);
                let mut tpa = Tally::new(concat!("Pareto::new<", stringify!($F), ">"), profile);
                let mut tw = Tally::new(concat!("Weibull::new<", stringify!($F), ">"), profile);
                let mut tgu = Tally::new(concat!("Gumbel::new<", stringify!($F), ">"), profile);
                let mut tig = Tally::new(concat!("InverseGaussian::new<", stringify!($F), ">"), profile);
                let mut tnig = Tally::new(concat!("NormalInverseGaussian::new<", stringify!($F), ">"), profile);
                let mut tzi = Tally::new(concat!("Zipf::new<", stringify!($F), ">"), profile);
                for &a in &lat {
                    for &b in &lat {
                        let args = format!("{},{}", show(a), show(b));
                        // Gamma(shape a, scale b)
                        let mut allowed = vec![];
                        if !pos(a) {
                            allowed.push("ShapeTooSmall");
                        }
                        if !pos(b) {
                            allowed.push("ScaleTooSmall");
                        }
                        let exp = if allowed.is_empty() && (a == F::INFINITY || b == F::INFINITY) { Expect::unspecified() } else { Expect { spec: true, allowed } };
                        tg.judge(&args, guarded(|| Gamma::new(a, b)), exp);
                        let mut allowed = vec![];
                        if !pos(a) {
                            allowed.push("AlphaTooSmall");
                        }
                        if !pos(b) {
                            allowed.push("BetaTooSmall");
                        }
                        tb.judge(&args, guarded(|| Beta::new(a, b)), Expect { spec: true, allowed });
                        let mut allowed = vec![];
                        if !(0.5 * a > 0.0) {
                            allowed.push("MTooSmall");
                        }
                        if !(0.5 * b > 0.0) {
                            allowed.push("NTooSmall");
                        }
                        tf.judge(&args, guarded(|| FisherF::new(a, b)), Expect { spec: true, allowed });
                        let exp = if !pos(b) { Expect { spec: true, allowed: vec!["ScaleTooSmall"] } } else { Expect::ok() };
                        tca.judge(&args, guarded(|| Cauchy::new(a, b)), exp);
                        let ss = || {
                            let mut allowed = vec![];
                            if !pos(a) {
                                allowed.push("ScaleTooSmall");
                            }
                            if !pos(b) {
                                allowed.push("ShapeTooSmall");
                            }
                            Expect { spec: true, allowed }
                        };
                        tpa.judge(&args, guarded(|| Pareto::new(a, b)), ss());
                        tw.judge(&args, guarded(|| Weibull::new(a, b)), ss());
                        let mut allowed = vec![];
                        if !a.is_finite() {
                            allowed.push("LocationNotFinite");
                        }
                        if !finite_pos(b) {
                            allowed.push("ScaleNotPositive");
                        }
                        tgu.judge(&args, guarded(|| Gumbel::new(a, b)), Expect { spec: true, allowed });
                        let mut allowed = vec![];
                        if !pos(a) {
                            allowed.push("MeanNegativeOrNull");
                        }
                        if !pos(b) {
                            allowed.push("ShapeNegativeOrNull");
                        }
                        tig.judge(&args, guarded(|| InverseGaussian::new(a, b)), Expect { spec: true, allowed });
                        let mut allowed = vec![];
                        if !pos(a) {
                            allowed.push("AlphaNegativeOrNull");
                        }
                        if a == F::INFINITY {
                            allowed.push("AlphaInfinite");
                        }
                        if !(b.abs() < a) {
                            allowed.push("AbsoluteBetaNotLessThanAlpha");
                        }
                        // AlphaInfinite is also documented for alpha "too close to the maximum finite value, if
                        // subnormal numbers are not supported": this platform supports them (1 / MAX is a non-zero
                        // subnormal), so every finite alpha with |beta| < alpha must be accepted
                        tnig.judge(&args, guarded(|| NormalInverseGaussian::new(a, b)), Expect { spec: true, allowed });
                        // Zipf(n = a, s = b)
                        let mut allowed = vec![];
                        if !(b >= 0.0) {
                            allowed.push("STooSmall");
                        }
                        if !(a >= 1.0) {
                            allowed.push("NTooSmall");
                        }
                        if a == F::INFINITY && b <= 1.0 {
                            allowed.push("IllDefined");
                        }
                        tzi.judge(&args, guarded(|| Zipf::new(a, b)), Expect { spec: true, allowed });
                    }
                }
                for t in [&tg, &tb, &tf, &tca, &tpa, &tw, &tgu, &tig, &tnig, &tzi] {
                    t.done();
                }

                // ---- three-argument constructors
                let mut tfr = Tally::new(concat!("Frechet::new<", stringify!($F), ">"), profile);
                let mut tsk = Tally::new(concat!("SkewNormal::new<", stringify!($F), ">"), profile);
                let mut ttr = Tally::new(concat!("Triangular::new<", stringify!($F), ">"), profile);
                for &a in &lat3 {
                    for &b in &lat3 {
                        for &c in &lat3 {
                            let args = format!("{},{},{}", show(a), show(b), show(c));
                            let mut allowed = vec![];
                            if !a.is_finite() {
                                allowed.push("LocationNotFinite");
                            }
                            if !finite_pos(b) {
                                allowed.push("ScaleNotPositive");
                            }
                            if !finite_pos(c) {
                                allowed.push("ShapeNotPositive");
                            }
                            tfr.judge(&args, guarded(|| Frechet::new(a, b, c)), Expect { spec: true, allowed });
                            let mut allowed = vec![];
                            if !finite_pos(b) {
                                allowed.push("ScaleTooSmall");
                            }
                            if !c.is_finite() {
                                allowed.push("BadShape");
                            }
                            if let Some(d) = tsk.judge(&args, guarded(|| SkewNormal::new(a, b, c)), Expect { spec: true, allowed }) {
                                tsk.accessor("location", &args, bits(d.location()), bits(a));
                                tsk.accessor("scale", &args, bits(d.scale()), bits(b));
                                tsk.accessor("shape", &args, bits(d.shape()), bits(c));
                            }
                            // Triangular(min a, max b, mode c)
                            let mut allowed = vec![];
                            if b < a || a.is_nan() || b.is_nan() {
                                allowed.push("RangeTooSmall");
                            }
                            if c < a || c > b || c.is_nan() {
                                allowed.push("ModeRange");
                            }
                            ttr.judge(&args, guarded(|| Triangular::new(a, b, c)), Expect { spec: true, allowed });
                        }
                    }
                }
                tfr.done();
                tsk.done();
                ttr.done();

                // ---- Pert: new(min,max).with_shape(s).with_mode(m) / with_mean(mean)
                let mut tpm = Tally::new(concat!("Pert::with_mode<", stringify!($F), ">"), profile);
                let mut tpe = Tally::new(concat!("Pert::with_mean<", stringify!($F), ">"), profile);
                let lat4: Vec<F> = if deep { lat3.clone() } else { lat3.iter().copied().step_by(2).chain([0.0 as F, 1.0, 4.0]).collect() };
                for &mn in &lat4 {
                    for &mx in &lat4 {
                        for &mo in &lat4 {
                            for &sh in &lat4 {
                                let args = format!("min={},max={},mode={},shape={}", show(mn), show(mx), show(mo), show(sh));
                                let mut allowed = vec![];
                                if mx < mn || mn.is_nan() || mx.is_nan() {
                                    allowed.push("RangeTooSmall");
                                }
                                if mo < mn || mo > mx || mo.is_nan() {
                                    allowed.push("ModeRange");
                                }
                                if sh < 0.0 || sh.is_nan() {
                                    allowed.push("ShapeTooSmall");
                                }
                                let open = mx == mn || !mn.is_finite() || !mx.is_finite() || !(mx - mn).is_finite() || sh == F::INFINITY;
                                let exp = if open && allowed.is_empty() { Expect::unspecified() } else if open { Expect { spec: false, allowed } } else { Expect { spec: true, allowed } };
                                tpm.judge(&args, guarded(|| Pert::new(mn, mx).with_shape(sh).with_mode(mo)), exp);
                                // with_mean(mean = mo): as with_mode of the mode implied by the documented relation
                                // mean = (min + max + shape * mode) / (shape + 2), judged only when that mode is clearly
                                // inside or clearly outside [min, max] (farther than a rounding margin from both bounds),
                                // everything is finite, max > min and shape > 0 (Appendix A)
                                let exp = {
                                    let (a, b, m, k) = (mn as f64, mx as f64, mo as f64, sh as f64);
                                    let fin = a.is_finite() && b.is_finite() && m.is_finite() && k.is_finite() && (b - a).is_finite();
                                    if fin && b > a && k < 0.0 {
                                        // a negative shape is documented as ShapeTooSmall whatever the mean; the mode implied by
                                        // the relation may in addition fall outside the range
                                        Expect { spec: true, allowed: vec!["ShapeTooSmall", "ModeRange"] }
                                    } else if !(fin && b > a && k > 0.0) {
                                        Expect::unspecified()
                                    } else {
                                        let mode = ((k + 2.0) * m - a - b) / k;
                                        let mag = (((k + 2.0) * m).abs() + a.abs() + b.abs()) / k + a.abs() + b.abs();
                                        let margin = mag * 64.0 * (F::EPSILON as f64) + 64.0 * (F::MIN_POSITIVE as f64);
                                        // intermediate overflow / underflow in the type F is not documented either way
                                        let overflow = (k + 2.0) * m.abs() + a.abs() + b.abs() > (F::MAX as f64) / 4.0;
                                        if !mode.is_finite() || overflow || (mode - a).abs() <= margin || (mode - b).abs() <= margin {
                                            Expect::unspecified()
                                        } else if mode < a || mode > b {
                                            Expect { spec: true, allowed: vec!["ModeRange"] }
                                        } else {
                                            Expect::ok()
                                        }
                                    }
                                };
                                tpe.judge(&args, guarded(|| Pert::new(mn, mx).with_shape(sh).with_mean(mo)), exp);
                            }
                        }
                    }
                }
                tpm.done();
                tpe.done();

                // ---- Dirichlet::new(alpha)
                let mut td = Tally::new(concat!("Dirichlet::new<", stringify!($F), ">"), profile);
                let dl: Vec<F> = lat.iter().copied().take(41).collect();
                let mut vecs: Vec<Vec<F>> = vec![vec![]];
                for &a in &dl {
                    vecs.push(vec![a]);
                    for &b in &dl {
                        vecs.push(vec![a, b]);
                    }
                }
                for _ in 0..(if deep { 20000 } else { 2000 }) {
                    let n = 2 + (rng.below(5) as usize);
                    vecs.push((0..n).map(|_| dl[rng.below(dl.len() as u64) as usize]).collect());
                }
                for v in &vecs {
                    let args = format!("{:?}", v.iter().map(|x| show(*x)).collect::<Vec<_>>());
                    let mut allowed = vec![];
                    if v.len() < 2 {
                        allowed.push("AlphaTooShort");
                    }
                    if v.iter().any(|a| !(*a > 0.0)) {
                        allowed.push("AlphaTooSmall");
                    }
                    if v.iter().any(|a| a.is_subnormal()) {
                        allowed.push("AlphaSubnormal");
                    }
                    if v.iter().any(|a| *a == F::INFINITY) {
                        allowed.push("AlphaInfinite");
                    }
                    let res = guarded(|| Dirichlet::new(v));
                    // FailedToCreateGamma / FailedToCreateBeta have no documented condition: observed only
                    let exp = match &res {
                        Caught::Ok(Err(e)) if format!("{e:?}").starts_with("FailedToCreate") => Expect::unspecified(),
                        _ => Expect { spec: true, allowed },
                    };
                    if let Some(d) = td.judge(&args, res, exp) {
                        td.accessor("sample_len", &args, d.sample_len() as u64, v.len() as u64);
                    }
                }
                td.done();
            }
        }
    };
}
float_ctor_mod!(c32, f32, u32);
float_ctor_mod!(c64, f64, u64);

fn int_lattice(deep: bool, rng: &mut Xo) -> Vec<u64> {
    let mut v = vec![
        0, 1, 2, 3, 10, 40, (1 << 31) - 1, (1 << 31) + 1, (1 << 32) - 1, (1 << 32) + 1, (1 << 53) - 1, (1 << 53) + 1, 1 << 62,
        (1 << 63) - 1, 1 << 63, u64::MAX - 2, u64::MAX - 1, u64::MAX,
    ];
    for _ in 0..(if deep { 12 } else { 3 }) {
        v.push(rng.next() >> (rng.below(64)));
    }
    v
}

fn hyper_is_slow(n: u64, k_feat: u64, ns: u64) -> bool {
    // transcription of the regime choice, used ONLY to skip constructor calls that would loop ~N times
    if k_feat > n || ns > n {
        return false;
    }
    let (n1, n2) = if k_feat > n - k_feat { (n - k_feat, k_feat) } else { (k_feat, n - k_feat) };
    let k = if ns <= n / 2 { ns } else { n - ns };
    let m = ((k as f64 + 1.0) * (n1 as f64 + 1.0) / (n as f64 + 2.0)).floor();
    let hin = m - f64::max(0.0, k as f64 - n2 as f64) < 10.0;
    hin && n > (1 << 24)
}

fn run_ints(profile: &str, seed: u64, nrand: usize, deep: bool) {
    use rand_distr::*;
    let mut rng = Xo::new(seed ^ 0x55);
    let ints = int_lattice(deep, &mut rng);
    let ps = c64::lattice(&mut rng, nrand);
    let mut t = Tally::new("Binomial::new", profile);
    for &n in &ints {
        for &p in &ps {
            let args = format!("{n},{p:e}[{:x}]", p.to_bits());
            let mut allowed = vec![];
            if p < 0.0 || p.is_nan() {
                allowed.push("ProbabilityTooSmall");
            }
            if p > 1.0 {
                allowed.push("ProbabilityTooLarge");
            }
            t.judge(&args, guarded(|| Binomial::new(n, p)), Expect { spec: true, allowed });
        }
    }
    t.done();
    let mut t = Tally::new("Geometric::new", profile);
    for &p in &ps {
        let args = format!("{p:e}[{:x}]", p.to_bits());
        let exp = if p < 0.0 || p > 1.0 || p.is_nan() { Expect { spec: true, allowed: vec!["InvalidProbability"] } } else { Expect::ok() };
        t.judge(&args, guarded(|| Geometric::new(p)), exp);
    }
    t.done();
    let mut t = Tally::new("Hypergeometric::new", profile);
    let mut skipped = 0u64;
    BUDGET_MS.store(0, Ordering::Relaxed);
    for &n in &ints {
        for &k in &ints {
            for &s in &ints {
                if hyper_is_slow(n, k, s) {
                    skipped += 1;
                    continue;
                }
                let args = format!("{n},{k},{s}");
                let mut allowed = vec![];
                if k > n {
                    allowed.push("ProbabilityTooLarge");
                }
                if s > n {
                    allowed.push("SampleSizeTooLarge");
                }
                let res = guarded(|| Hypergeometric::new(n, k, s));
                // PopulationTooLarge ("too large, causing underflow") is not a checkable predicate: observed only
                let exp = match &res {
                    Caught::Ok(Err(e)) if format!("{e:?}") == "PopulationTooLarge" && allowed.is_empty() => Expect::unspecified(),
                    _ => Expect { spec: true, allowed },
                };
                t.judge(&args, res, exp);
            }
        }
    }
    emit(&json!({"ev": "note", "ctor": "Hypergeometric::new", "skipped_predicted_slow": skipped}));
    t.done();
}

macro_rules! weighted_ctor {
    ($fname:ident, $W:ty, $alpha:expr, $is_float:expr) => {
        fn $fname(profile: &str, seed: u64, deep: bool) {
            use rand_distr::weighted::{WeightedAliasIndex, WeightedTreeIndex};
            let alpha: Vec<$W> = $alpha;
            let mut rng = Xo::new(seed ^ 0x77);
            let maxlen = if deep { 4 } else { 3 };
            let mut vecs: Vec<Vec<$W>> = vec![vec![]];
            let mut frontier: Vec<Vec<$W>> = vec![vec![]];
            for _ in 0..maxlen {
                let mut next = vec![];
                for v in &frontier {
                    for &a in &alpha {
                        let mut w = v.clone();
                        w.push(a);
                        next.push(w);
                    }
                }
                vecs.extend(next.iter().cloned());
                frontier = next;
            }
            for _ in 0..(if deep { 3000 } else { 300 }) {
                let n = 1 + rng.below(12) as usize;
                vecs.push((0..n).map(|_| alpha[rng.below(alpha.len() as u64) as usize]).collect());
            }
            // long vectors whose entries sit at (or a hair below) the documented per-length maximum MAX / len
            for n in [31usize, 32, 33, 34, 35, 63, 64, 65, 100, 127, 128, 129, 200, 255, 256, 257, 300] {
                let cap_f = (<$W>::MAX as f64) / (n as f64);
                for frac in [1.0f64, 0.999999, 0.5] {
                    let w: $W = if $is_float { (cap_f * frac) as $W } else { ((<$W>::MAX as u128 / n as u128) as f64 * frac) as $W };
                    let w: $W = if !$is_float && frac == 1.0 { ((<$W>::MAX as u128) / (n as u128)) as $W } else { w };
                    vecs.push(vec![w; n]);
                    let mut v2 = vec![w; n];
                    v2[n / 2] = Default::default();
                    v2[0] = (1 as $W);
                    vecs.push(v2);
                }
            }
            let mut ta = Tally::new(concat!("WeightedAliasIndex::new<", stringify!($W), ">"), profile);
            let mut tt = Tally::new(concat!("WeightedTreeIndex::new<", stringify!($W), ">"), profile);
            let zero: $W = Default::default();
            #[allow(unused_comparisons)]
            for v in &vecs {
                let args = format!("{:?}", v);
                // alias: documented conditions
                let n = v.len();
                let mut allowed = vec![];
                if n == 0 {
                    allowed.push("InvalidInput");
                }
                let is_nan = |w: &$W| w != w;
                let max_w: $W = if n == 0 {
                    <$W>::MAX
                } else if $is_float {
                    <$W>::MAX / (n as $W)
                } else {
                    // integer division; 0 when len does not fit W
                    let nn = n as $W;
                    if nn > zero && (nn as u128) == n as u128 { <$W>::MAX / nn } else { zero }
                };
                if v.iter().any(|w| is_nan(w) || *w < zero || *w > max_w) {
                    allowed.push("InvalidWeight");
                }
                if n > 0 && !v.iter().any(|w| is_nan(w) || *w < zero) && v.iter().all(|w| *w == zero) {
                    allowed.push("InsufficientNonZero");
                }
                if let Some(d) = ta.judge(&args, guarded(|| WeightedAliasIndex::new(v.clone())), Expect { spec: true, allowed }) {
                    ta.accessor("weights().len()", &args, d.weights().len() as u64, n as u64);
                }
                // tree: InvalidWeight: NaN or negative; Overflow: integer total exceeds MAX; float totals overflowing open
                let mut allowed = vec![];
                if v.iter().any(|w| is_nan(w) || *w < zero) {
                    allowed.push("InvalidWeight");
                }
                let mut spec = true;
                if $is_float {
                    let tot: f64 = v.iter().map(|w| *w as f64).sum();
                    if !(tot <= <$W>::MAX as f64) {
                        spec = false;
                    }
                } else if !v.iter().any(|w| *w < zero) {
                    let tot: Option<u128> = v.iter().try_fold(0u128, |a, w| a.checked_add(*w as u128));
                    if tot.is_none_or(|t| t > <$W>::MAX as u128) {
                        allowed.push("Overflow");
                    }
                }
                if let Some(d) = tt.judge(&args, guarded(|| WeightedTreeIndex::new(v.clone())), Expect { spec, allowed }) {
                    tt.accessor("len", &args, d.len() as u64, n as u64);
                    tt.accessor("is_empty", &args, d.is_empty() as u64, (n == 0) as u64);
                    if !$is_float {
                        for (i, w) in v.iter().enumerate() {
                            let g = guarded(|| d.get(i));
                            match g {
                                Caught::Ok(x) => tt.accessor("get", &args, (x == *w) as u64, 1),
                                _ => tt.violation("panic:get".into(), &args, format!("get({i}) panicked")),
                            }
                        }
                        // push / update on the built tree: result class, and the accessors afterwards must report
                        // the weights in force (unchanged when the call returned Err)
                        if n <= 4 {
                            let tot: u128 = v.iter().map(|w| *w as u128).sum();
                            for &w in &alpha {
                                for target in 0..=n {
                                    // target == n: push(w); otherwise update(target, w)
                                    let mut t2 = d.clone();
                                    let mut model = v.clone();
                                    let old = if target < n { model[target] as u128 } else { 0 };
                                    let mut allowed = vec![];
                                    if w < zero {
                                        allowed.push("InvalidWeight");
                                    } else if (tot - old).checked_add(w as u128).is_none_or(|t| t > <$W>::MAX as u128) {
                                        allowed.push("Overflow");
                                    }
                                    let opname = if target == n { "WeightedTreeIndex::push" } else { "WeightedTreeIndex::update" };
                                    let a2 = format!("{args} then {}({}{w:?})", if target == n { "push" } else { "update" }, if target == n { String::new() } else { format!("{target}, ") });
                                    let res = guarded(|| if target == n { t2.push(w) } else { t2.update(target, w) });
                                    let mut tp = Tally::new(opname, profile);
                                    let ok = tp.judge(&a2, res, Expect { spec: true, allowed }).is_some();
                                    tt.calls += 1;
                                    for (k, c) in tp.viol.iter() {
                                        *tt.viol.entry(format!("{opname}:{k}")).or_insert(0) += c;
                                    }
                                    if ok {
                                        if target == n { model.push(w) } else { model[target] = w }
                                    }
                                    if t2.len() != model.len() {
                                        tt.violation(format!("accessor:len after {opname}"), &a2, format!("len {} vs {}", t2.len(), model.len()));
                                        continue;
                                    }
                                    for (i, mw) in model.iter().enumerate() {
                                        match guarded(|| t2.get(i)) {
                                            Caught::Ok(x) => {
                                                tt.accessor_checks += 1;
                                                if x != *mw {
                                                    tt.violation(format!("accessor:get after {opname}"), &a2, format!("get({i}) = {x:?}, weights in force {model:?}"));
                                                    break;
                                                }
                                            }
                                            _ => {
                                                tt.violation(format!("panic:get after {opname}"), &a2, format!("get({i}) panicked"));
                                                break;
                                            }
                                        }
                                    }
                                }
                            }
                        }
                    }
                }
            }
            ta.done();
            tt.done();
        }
    };
}
weighted_ctor!(w_u8, u8, vec![0, 1, 2, 63, 64, 85, 86, 127, 128, 254, 255], false);
weighted_ctor!(w_i8, i8, vec![0, 1, 2, -1, i8::MIN, 31, 32, 42, 43, 63, 64, 126, 127], false);
weighted_ctor!(w_u16, u16, vec![0, 1, 2, u16::MAX / 4, u16::MAX / 3, u16::MAX / 3 + 1, u16::MAX / 2, u16::MAX / 2 + 1, u16::MAX - 1, u16::MAX], false);
weighted_ctor!(w_i16, i16, vec![0, 1, -1, i16::MIN, i16::MAX / 3, i16::MAX / 3 + 1, i16::MAX / 2, i16::MAX / 2 + 1, i16::MAX], false);
weighted_ctor!(w_u32, u32, vec![0, 1, 2, u32::MAX / 4, u32::MAX / 3, u32::MAX / 3 + 1, u32::MAX / 2, u32::MAX / 2 + 1, u32::MAX - 1, u32::MAX], false);
weighted_ctor!(w_i32, i32, vec![0, 1, -1, i32::MIN, i32::MAX / 3, i32::MAX / 3 + 1, i32::MAX / 2, i32::MAX / 2 + 1, i32::MAX], false);
weighted_ctor!(w_u64, u64, vec![0, 1, 2, u64::MAX / 4, u64::MAX / 3, u64::MAX / 3 + 1, u64::MAX / 2, u64::MAX / 2 + 1, u64::MAX - 1, u64::MAX], false);
weighted_ctor!(w_i64, i64, vec![0, 1, -1, i64::MIN, i64::MAX / 3, i64::MAX / 3 + 1, i64::MAX / 2, i64::MAX / 2 + 1, i64::MAX], false);
weighted_ctor!(w_usize, usize, vec![0, 1, 2, usize::MAX / 4, usize::MAX / 3, usize::MAX / 3 + 1, usize::MAX / 2, usize::MAX / 2 + 1, usize::MAX - 1, usize::MAX], false);
weighted_ctor!(w_u128, u128, vec![0, 1, 2, u128::MAX / 4, u128::MAX / 3, u128::MAX / 3 + 1, u128::MAX / 2, u128::MAX / 2 + 1, u128::MAX - 1, u128::MAX], false);
weighted_ctor!(w_i128, i128, vec![0, 1, -1, i128::MIN, i128::MAX / 3, i128::MAX / 3 + 1, i128::MAX / 2, i128::MAX / 2 + 1, i128::MAX], false);
weighted_ctor!(w_f32, f32, vec![0.0, -0.0, 1.0, 2.5, -1.0, f32::NAN, f32::INFINITY, f32::NEG_INFINITY, f32::MAX, f32::MAX / 2.0, f32::MAX / 3.0, f32::MIN_POSITIVE, 1e-45, 1e30], true);
weighted_ctor!(w_f64, f64, vec![0.0, -0.0, 1.0, 2.5, -1.0, f64::NAN, f64::INFINITY, f64::NEG_INFINITY, f64::MAX, f64::MAX / 2.0, f64::MAX / 3.0, f64::MIN_POSITIVE, 5e-324, 1e300], true);

pub fn run(job: &Value) {
    let profile = job["profile"].as_str().unwrap_or("release").to_string();
    let seed = job["seed"].as_u64().unwrap_or(0);
    let nrand = job["nrand"].as_u64().unwrap_or(8) as usize;
    let deep = job["deep"].as_bool().unwrap_or(false);
    let part = job["part"].as_str().unwrap_or("all");
    BUDGET_MS.store(job["cpu_ms_ctor"].as_u64().unwrap_or(5000), Ordering::Relaxed);
    set_ctx(json!({"phase": "ctor", "part": part, "profile": profile}));
    match part {
        "f32" => c32::run(&profile, seed, nrand, deep),
        "f64" => c64::run(&profile, seed, nrand, deep),
        "int" => run_ints(&profile, seed, nrand, deep),
        "weighted" => {
            w_u8(&profile, seed, deep);
            w_i8(&profile, seed, deep);
            w_u16(&profile, seed, deep);
            w_i16(&profile, seed, deep);
            w_u32(&profile, seed, deep);
            w_i32(&profile, seed, deep);
            w_u64(&profile, seed, deep);
            w_i64(&profile, seed, deep);
            w_usize(&profile, seed, deep);
            w_u128(&profile, seed, deep);
            w_i128(&profile, seed, deep);
            w_f32(&profile, seed, deep);
            w_f64(&profile, seed, deep);
        }
        _ => panic!("unknown part {part}"),
    }
    BUDGET_MS.store(0, Ordering::Relaxed);
    emit(&json!({"ev": "done"}));
    flush();
}
