//! C15 monitor: serde round trip (serde_json, float_roundtrip) to an equal, identically sampling
//! value.  Whether a type implements Serialize + Deserialize is detected at compile time by
//! autoref specialisation, so a type gaining or losing the derives is picked up automatically.
use crate::common::*;
use crate::fam::*;
use crate::rng::*;
use rand_distr::multi::Dirichlet;
use rand_distr::weighted::{WeightedAliasIndex, WeightedTreeIndex};
use rand_distr::*;
use serde::Serialize;
use serde::de::DeserializeOwned;
use serde_json::{Value, json};
use std::collections::BTreeMap;
use std::fmt::Debug;

pub struct Wrap<'a, T>(pub &'a T);

pub enum Rt<T> {
    NotSerde,
    /// the format cannot carry the value (e.g. a non-finite float): not judged
    FormatCannot(String),
    Failed(String),
    Ok(T, String),
}
pub trait SerdeYes<T> {
    fn roundtrip(&self) -> Rt<T>;
}
impl<T: Serialize + DeserializeOwned> SerdeYes<T> for Wrap<'_, T> {
    fn roundtrip(&self) -> Rt<T> {
        let s = match serde_json::to_string(self.0) {
            Ok(s) => s,
            // serde_json never refuses a value because of its numbers (non-finite floats become null, handled below):
            // a serialisation error is a failure of the type's Serialize implementation
            Err(e) => return Rt::Failed(format!("serialize: {e}")),
        };
        if s.contains("null") {
            // serde_json writes non-finite floats as null: the format cannot represent the value
            return Rt::FormatCannot(format!("non-finite field serialised as null: {s}"));
        }
        match serde_json::from_str::<T>(&s) {
            Ok(v) => Rt::Ok(v, s),
            Err(e) => Rt::Failed(format!("deserialize: {e}; json = {s}")),
        }
    }
}
pub trait SerdeNo<T> {
    fn roundtrip(&self) -> Rt<T>;
}
impl<T> SerdeNo<T> for &Wrap<'_, T> {
    fn roundtrip(&self) -> Rt<T> {
        Rt::NotSerde
    }
}

pub struct WrapEq<'a, T>(pub &'a T, pub &'a T);
pub trait EqYes {
    fn same(&self) -> Option<bool>;
}
impl<T: PartialEq> EqYes for WrapEq<'_, T> {
    fn same(&self) -> Option<bool> {
        Some(self.0 == self.1)
    }
}
pub trait EqNo {
    fn same(&self) -> Option<bool>;
}
impl<T> EqNo for &WrapEq<'_, T> {
    fn same(&self) -> Option<bool> {
        None
    }
}

#[derive(Default)]
struct Acc {
    types: BTreeMap<String, BTreeMap<String, u64>>,
    sigs: BTreeMap<String, std::collections::BTreeSet<String>>,
    nviol: u64,
    values: u64,
    draws: u64,
}
impl Acc {
    fn note(&mut self, ty: &str, what: &str) {
        *self.types.entry(ty.to_string()).or_default().entry(what.to_string()).or_insert(0) += 1;
    }
}

/// check one value `d` of concrete type `$T`; `$hash` = |d: &$T, rng| -> u64 hash of one sample
macro_rules! check {
    ($acc:expr, $tyname:expr, $d:expr, $T:ty, $hash:expr, $seed:expr) => {{
        let d: $T = $d;
        let tyname: &str = $tyname;
        let acc: &mut Acc = $acc;
        tick();
        acc.values += 1;
        let dbg = format!("{d:?}");
        acc.sigs.entry(tyname.to_string()).or_default().insert(signature(&dbg).chars().take(160).collect());
        #[allow(unused_imports)]
        use crate::mon_serde::{EqNo, EqYes, SerdeNo, SerdeYes};
        match (&Wrap(&d)).roundtrip() {
            Rt::NotSerde => acc.note(tyname, "not_serde"),
            Rt::FormatCannot(m) => {
                acc.note(tyname, "format_cannot_represent");
                let _ = m;
            }
            Rt::Failed(m) => {
                acc.note(tyname, "failed");
                acc.nviol += 1;
                emit(&json!({"ev": "viol", "type": tyname, "kind": "roundtrip_failed", "debug": dbg, "msg": m}));
            }
            Rt::Ok(back, js) => {
                acc.note(tyname, "roundtrip_ok");
                let back: $T = back;
                let dbg2 = format!("{back:?}");
                let eq: Option<bool> = (&WrapEq(&d, &back)).same();
                let mut bad: Option<String> = None;
                if eq == Some(false) {
                    bad = Some("value after round trip != original".into());
                } else if dbg2 != dbg {
                    bad = Some(format!("Debug differs after round trip: {dbg2}"));
                }
                if eq.is_some() {
                    acc.note(tyname, "partial_eq_compared");
                }
                // identical sample sequence on the same stream
                let h: fn(&$T, &mut Mon<Scripted>) -> u64 = $hash;
                let mut r1 = Mon::new(Scripted::plain($seed)).budget(10_000_000);
                let mut r2 = Mon::new(Scripted::plain($seed)).budget(10_000_000);
                let res = guarded(|| {
                    for i in 0..1000u32 {
                        let (a, b) = (h(&d, &mut r1), h(&back, &mut r2));
                        if a != b || r1.count != r2.count {
                            return Some(i);
                        }
                    }
                    None
                });
                acc.draws += 2000;
                match res {
                    Caught::Ok(Some(i)) => bad = bad.or(Some(format!("sample sequences diverge at draw {i}"))),
                    Caught::Ok(None) => {}
                    _ => {} // panics / budget are C03's / C05's business
                }
                if let Some(msg) = bad {
                    acc.nviol += 1;
                    if acc.nviol <= 5 {
                        emit(&json!({"ev": "viol", "type": tyname, "kind": "roundtrip_changed_value", "debug": dbg, "json": js.chars().take(600).collect::<String>(), "msg": msg}));
                    }
                }
            }
        }
    }};
}

fn hf64(x: f64) -> u64 {
    x.to_bits()
}

macro_rules! serde_float_mod {
    ($m:ident, $F:ty, $tn:expr) => {
        pub mod $m {
            use super::*;
            type F = $F;
            pub fn run_case(acc: &mut Acc, case: &Case, seed: u64) {
                let p = case.pf();
                let a = |i: usize| p[i] as F;
                macro_rules! sc {
                    ($name:expr, $T:ty, $ctor:expr) => {
                        match $ctor {
                            Ok(d) => check!(acc, concat!($name, "<", $tn, ">"), d, $T, |d, r| hf64(d.sample(r) as f64), seed),
                            Err(_) => {}
                        }
                    };
                }
                match case.fam.as_str() {
                    "standard_normal" => check!(acc, "StandardNormal", StandardNormal, StandardNormal, |d, r| hf64(Distribution::<F>::sample(d, r) as f64), seed),
                    "exp1" => check!(acc, "Exp1", Exp1, Exp1, |d, r| hf64(Distribution::<F>::sample(d, r) as f64), seed),
                    "normal" => sc!("Normal", Normal<F>, Normal::new(a(0), a(1))),
                    "normal_cv" => sc!("Normal", Normal<F>, Normal::from_mean_cv(a(0), a(1))),
                    "log_normal_cv" => sc!("LogNormal", LogNormal<F>, LogNormal::from_mean_cv(a(0), a(1))),
                    "pert_mean" => sc!("Pert", Pert<F>, Pert::new(a(0), a(1)).with_shape(a(3)).with_mean(a(2))),
                    "log_normal" => sc!("LogNormal", LogNormal<F>, LogNormal::new(a(0), a(1))),
                    "exp" => sc!("Exp", Exp<F>, Exp::new(a(0))),
                    "gamma" => sc!("Gamma", Gamma<F>, Gamma::new(a(0), a(1))),
                    "chi_squared" => sc!("ChiSquared", ChiSquared<F>, ChiSquared::new(a(0))),
                    "student_t" => sc!("StudentT", StudentT<F>, StudentT::new(a(0))),
                    "fisher_f" => sc!("FisherF", FisherF<F>, FisherF::new(a(0), a(1))),
                    "beta" => sc!("Beta", Beta<F>, Beta::new(a(0), a(1))),
                    "pert" => sc!("Pert", Pert<F>, Pert::new(a(0), a(1)).with_shape(a(3)).with_mode(a(2))),
                    "triangular" => sc!("Triangular", Triangular<F>, Triangular::new(a(0), a(1), a(2))),
                    "cauchy" => sc!("Cauchy", Cauchy<F>, Cauchy::new(a(0), a(1))),
                    "pareto" => sc!("Pareto", Pareto<F>, Pareto::new(a(0), a(1))),
                    "weibull" => sc!("Weibull", Weibull<F>, Weibull::new(a(0), a(1))),
                    "gumbel" => sc!("Gumbel", Gumbel<F>, Gumbel::new(a(0), a(1))),
                    "frechet" => sc!("Frechet", Frechet<F>, Frechet::new(a(0), a(1), a(2))),
                    "skew_normal" => sc!("SkewNormal", SkewNormal<F>, SkewNormal::new(a(0), a(1), a(2))),
                    "inverse_gaussian" => sc!("InverseGaussian", InverseGaussian<F>, InverseGaussian::new(a(0), a(1))),
                    "nig" => sc!("NormalInverseGaussian", NormalInverseGaussian<F>, NormalInverseGaussian::new(a(0), a(1))),
                    "poisson" => sc!("Poisson", Poisson<F>, Poisson::new(a(0))),
                    "zipf" => sc!("Zipf", Zipf<F>, Zipf::new(a(0), a(1))),
                    "zeta" => sc!("Zeta", Zeta<F>, Zeta::new(a(0))),
                    "unit_circle" => check!(acc, "UnitCircle", UnitCircle, UnitCircle, |d, r| { let x: [F; 2] = d.sample(r); hf64(x[0] as f64) ^ hf64(x[1] as f64).rotate_left(7) }, seed),
                    "unit_disc" => check!(acc, "UnitDisc", UnitDisc, UnitDisc, |d, r| { let x: [F; 2] = d.sample(r); hf64(x[0] as f64) ^ hf64(x[1] as f64).rotate_left(7) }, seed),
                    "unit_sphere" => check!(acc, "UnitSphere", UnitSphere, UnitSphere, |d, r| { let x: [F; 3] = d.sample(r); hf64(x[0] as f64) ^ hf64(x[1] as f64).rotate_left(7) ^ hf64(x[2] as f64).rotate_left(19) }, seed),
                    "unit_ball" => check!(acc, "UnitBall", UnitBall, UnitBall, |d, r| { let x: [F; 3] = d.sample(r); hf64(x[0] as f64) ^ hf64(x[1] as f64).rotate_left(7) ^ hf64(x[2] as f64).rotate_left(19) }, seed),
                    "dirichlet" => {
                        let v: Vec<F> = p.iter().map(|x| *x as F).collect();
                        if let Ok(d) = Dirichlet::new(&v) {
                            check!(acc, concat!("Dirichlet<", $tn, ">"), d, Dirichlet<F>, |d, r| { let x: Vec<F> = d.sample(r); x.iter().fold(0u64, |h, c| (h ^ hf64(*c as f64)).wrapping_mul(0x100000001b3)) }, seed);
                        }
                    }
                    _ => {}
                }
            }
        }
    };
}
serde_float_mod!(s32, f32, "f32");
serde_float_mod!(s64, f64, "f64");

fn run_u(acc: &mut Acc, case: &Case, seed: u64) {
    let p = &case.p;
    match case.fam.as_str() {
        "binomial" => {
            if let Ok(d) = Binomial::new(p[0].u(), p[1].f()) {
                check!(acc, "Binomial", d, Binomial, |d, r| d.sample(r), seed);
            }
        }
        "geometric" => {
            if let Ok(d) = Geometric::new(p[0].f()) {
                check!(acc, "Geometric", d, Geometric, |d, r| d.sample(r), seed);
            }
        }
        "standard_geometric" => check!(acc, "StandardGeometric", StandardGeometric, StandardGeometric, |d, r| d.sample(r), seed),
        "hypergeometric" => {
            if let Ok(d) = Hypergeometric::new(p[0].u(), p[1].u(), p[2].u()) {
                check!(acc, "Hypergeometric", d, Hypergeometric, |d, r| d.sample(r), seed);
            }
        }
        _ => {}
    }
}

fn run_weighted(acc: &mut Acc, seed: u64) {
    let mut rng = Xo::new(seed ^ 0x15);
    macro_rules! w {
        ($W:ty, $name:expr, $mk:expr) => {{
            let f: fn(u64) -> $W = $mk;
            for len in [1usize, 2, 3, 7, 8, 9, 64, 100] {
                let ws: Vec<$W> = (0..len).map(|i| if i % 5 == 3 { f(0) } else { f(1 + rng.below(50)) }).collect();
                if let Ok(d) = WeightedAliasIndex::new(ws.clone()) {
                    check!(acc, concat!("WeightedAliasIndex<", $name, ">"), d, WeightedAliasIndex<$W>, |d, r| d.sample(r) as u64, seed);
                }
                if let Ok(d) = WeightedTreeIndex::new(ws.clone()) {
                    check!(acc, concat!("WeightedTreeIndex<", $name, ">"), d, WeightedTreeIndex<$W>, |d, r| d.sample(r) as u64, seed);
                }
            }
            // empty trees: built empty, default, drained by pop (valid states of this updatable index)
            if let Ok(e) = WeightedTreeIndex::<$W>::new(Vec::<$W>::new()) {
                check!(acc, concat!("WeightedTreeIndex<", $name, ">"), e, WeightedTreeIndex<$W>, |d, r| d.try_sample(r).map(|i| i as u64).unwrap_or(u64::MAX), seed);
            }
            check!(acc, concat!("WeightedTreeIndex<", $name, ">"), WeightedTreeIndex::<$W>::default(), WeightedTreeIndex<$W>, |d, r| d.try_sample(r).map(|i| i as u64).unwrap_or(u64::MAX), seed);
            let mut drained = WeightedTreeIndex::<$W>::new(vec![f(3), f(2)]).unwrap();
            drained.pop();
            drained.pop();
            check!(acc, concat!("WeightedTreeIndex<", $name, ">"), drained, WeightedTreeIndex<$W>, |d, r| d.try_sample(r).map(|i| i as u64).unwrap_or(u64::MAX), seed);
            // a tree after updates
            let mut t = WeightedTreeIndex::<$W>::new(vec![f(3), f(0), f(9)]).unwrap();
            let _ = t.push(f(4));
            let _ = t.update(0, f(1));
            let _ = t.pop();
            check!(acc, concat!("WeightedTreeIndex<", $name, ">"), t, WeightedTreeIndex<$W>, |d, r| d.sample(r) as u64, seed);
        }};
    }
    // float trees whose weights were lowered back to zero: rounding can leave a tiny negative residue in a stored
    // subtotal; such a tree is valid, sampleable and serialisable, so it must also come back
    macro_rules! residue {
        ($W:ty, $name:expr) => {{
            let mut found = 0u64;
            let mut tried = 0u64;
            let fixed: Vec<$W> = vec![1.0, 0.1, 2.0, 0.1, 0.2, 0.5, 0.75];
            for k in 0..400u64 {
                let ws: Vec<$W> = if k == 0 {
                    fixed.clone()
                } else {
                    let n = 3 + rng.below(9) as usize;
                    (0..n).map(|_| ((rng.unit() * 0.999 + 0.001) * [1.0, 0.1, 0.3, 1e-3, 7.0][rng.below(5) as usize]) as $W).collect()
                };
                let Ok(mut t) = WeightedTreeIndex::<$W>::new(ws.clone()) else { continue };
                let zeroed: Vec<usize> = if k == 0 { vec![1, 3, 4] } else { (0..ws.len()).filter(|_| rng.below(2) == 0).collect() };
                for &i in &zeroed {
                    let _ = t.update(i, 0.0);
                }
                tried += 1;
                let has_negative = format!("{t:?}").contains("-");
                if !(has_negative && t.is_valid()) || found >= 12 {
                    continue;
                }
                found += 1;
                check!(acc, concat!("WeightedTreeIndex<", $name, ">"), t, WeightedTreeIndex<$W>, |d, r| d.try_sample(r).map(|i| i as u64).unwrap_or(u64::MAX), seed);
            }
            emit(&json!({"ev": "c15_residue_trees", "wt": $name, "histories": tried, "valid_trees_with_negative_subtotal_round_tripped": found}));
        }};
    }
    residue!(f32, "f32");
    residue!(f64, "f64");
    w!(u8, "u8", |x| (x % 5) as u8);
    w!(i8, "i8", |x| (x % 3) as i8);
    w!(u16, "u16", |x| x as u16);
    w!(i16, "i16", |x| x as i16);
    w!(u32, "u32", |x| x as u32);
    w!(i32, "i32", |x| x as i32);
    w!(u64, "u64", |x| x << 40);
    w!(i64, "i64", |x| (x << 40) as i64);
    w!(usize, "usize", |x| x as usize);
    w!(u128, "u128", |x| (x as u128) << 90);
    w!(i128, "i128", |x| (x as i128) << 90);
    w!(f32, "f32", |x| x as f32 * 0.37);
    w!(f64, "f64", |x| x as f64 * 0.37e-3);
}

pub fn run(job: &Value) {
    let cases: Vec<Case> = job["cases"].as_array().expect("cases").iter().map(Case::from_json).collect();
    let vseed = job["verif_seed"].as_u64().unwrap_or(0);
    BUDGET_MS.store(20_000, std::sync::atomic::Ordering::Relaxed);
    let mut acc = Acc::default();
    for (idx, case) in cases.iter().enumerate() {
        set_ctx(json!({"case_idx": idx, "case": case.to_json(), "phase": "c15"}));
        let seed = mix(&[vseed, idx as u64, 0xC15]);
        let nv = acc.nviol;
        let _ = guarded(|| match case.ty {
            Ty::F32 => s32::run_case(&mut acc, case, seed),
            Ty::F64 => s64::run_case(&mut acc, case, seed),
            Ty::U64 => run_u(&mut acc, case, seed),
        });
        if acc.nviol > nv {
            emit(&json!({"ev": "viol_case", "case": case.to_json()}));
        }
    }
    if job["weighted"].as_bool().unwrap_or(false) {
        set_ctx(json!({"phase": "c15-weighted"}));
        run_weighted(&mut acc, mix(&[vseed, 0x3e]));
    }
    emit(&json!({"ev": "c15", "types": acc.types, "signatures": acc.sigs, "values": acc.values, "draws": acc.draws, "viol": acc.nviol}));
    emit(&json!({"ev": "done"}));
    flush();
}
