//! C03 / C05 monitor: support + panic + word budget + CPU watchdog under random,
//! single-word-adversarial and exhaustive-f32 streams (DESIGN.md §3.3, §3.4, §5 C03/C05).
use crate::common::*;
use crate::fam::*;
use crate::rng::*;
use crate::subject::{Subject, subject};
use serde_json::{Value, json};
use std::sync::atomic::Ordering;

struct Stats {
    calls: u64,
    words_sum: u64,
    words_min: u64,
    words_max: u64,
    hist: [u64; 66],
    vmin: f64,
    vmax: f64,
}
impl Stats {
    fn new() -> Self {
        Stats { calls: 0, words_sum: 0, words_min: u64::MAX, words_max: 0, hist: [0; 66], vmin: f64::INFINITY, vmax: f64::NEG_INFINITY }
    }
    #[inline]
    fn add(&mut self, words: u64, v: Val) {
        self.calls += 1;
        self.words_sum += words;
        self.words_min = self.words_min.min(words);
        self.words_max = self.words_max.max(words);
        self.hist[(words as usize).min(65)] += 1;
        let x = match v {
            Val::F(x) => x,
            Val::U(u) => u as f64,
        };
        if x < self.vmin {
            self.vmin = x;
        }
        if x > self.vmax {
            self.vmax = x;
        }
    }
    fn json(&self) -> Value {
        let hist: Vec<(usize, u64)> = self.hist.iter().copied().enumerate().filter(|(_, c)| *c > 0).collect();
        json!({"calls": self.calls, "words_sum": self.words_sum, "words_min": if self.calls>0 {self.words_min} else {0}, "words_max": self.words_max,
               "words_hist": hist, "val_min": format!("{:e}", self.vmin), "val_max": format!("{:e}", self.vmax)})
    }
}

struct Viol<'a> {
    case: &'a Case,
    idx: usize,
    counts: std::collections::BTreeMap<String, u64>,
    emitted: std::collections::BTreeMap<String, u64>,
    max_per_kind: u64,
    profile: String,
}
impl Viol<'_> {
    #[allow(clippy::too_many_arguments)]
    fn report(&mut self, kind: &str, phase: &str, seed: u64, pos: u64, word: u64, class: &str, call: u64, words: u64, val: Option<Val>, msg: &str) {
        // budget per (kind, word class, position) so that different triggers all get a witness
        let key = format!("{kind}|{class}|{pos}");
        *self.counts.entry(kind.to_string()).or_insert(0) += 1;
        let e = self.emitted.entry(key).or_insert(0);
        if *e >= self.max_per_kind {
            return;
        }
        *e += 1;
        emit(&json!({
            "ev": "viol", "kind": kind, "phase": phase, "case_idx": self.idx, "case": self.case.to_json(),
            "profile": self.profile,
            "stream": {"seed": seed, "pos": pos, "word": hex64(word), "class": class, "call": call},
            "words": words,
            "value": val.map(|v| v.show()), "value_bits": val.map(|v| hex64(v.bits())),
            "msg": msg,
        }));
    }
}

/// One execution: calls until the scripted position has been consumed (at least one call).
/// Returns number of calls made.
#[allow(clippy::too_many_arguments)]
fn exec(
    subj: &dyn Subject,
    viol: &mut Viol,
    stats: &mut Stats,
    phase: &str,
    seed: u64,
    pos: u64,
    word: u64,
    class: &str,
    budget: u64,
    max_calls: u64,
) -> u64 {
    let mut rng = Mon::new(AnyWords::S(Scripted::new(seed, pos, word))).budget(u64::MAX);
    let mut call = 0u64;
    loop {
        let before = rng.count;
        rng.budget = before + budget;
        set_abcd(seed, pos, word, call);
        let r = guarded(|| subj.call(&mut rng));
        tick();
        let words = rng.count - before;
        match r {
            Caught::Ok((sup, v)) => {
                stats.add(words, v);
                match sup {
                    Sup::Ok => {}
                    Sup::NonFinite => viol.report("nonfinite", phase, seed, pos, word, class, call, words, Some(v), ""),
                    Sup::Outside => viol.report("outside", phase, seed, pos, word, class, call, words, Some(v), ""),
                }
            }
            Caught::Panic(m) => {
                viol.report(&format!("panic:{}", norm_panic(&m)), phase, seed, pos, word, class, call, words, None, &m);
                return call + 1;
            }
            Caught::Budget(n) => {
                viol.report("budget", phase, seed, pos, word, class, call, n, None, "word budget exceeded");
                return call + 1;
            }
            Caught::ReplayExhausted => unreachable!(),
        }
        call += 1;
        if rng.inner.idx() > pos || call >= max_calls {
            return call;
        }
    }
}

pub fn run(job: &Value) {
    let cases: Vec<Case> = job["cases"].as_array().expect("cases").iter().map(Case::from_json).collect();
    let seeds: Vec<u64> = job["seeds"].as_array().map(|a| a.iter().map(|x| x.as_u64().unwrap()).collect()).unwrap_or_else(|| vec![1, 2]);
    let positions = job["positions"].as_u64().unwrap_or(8);
    let random_calls = job["random_calls"].as_u64().unwrap_or(100_000);
    let sweep_pos: Vec<u64> = job["sweep_pos"].as_array().map(|a| a.iter().map(|x| x.as_u64().unwrap()).collect()).unwrap_or_default();
    let budget = job["budget_words"].as_u64().unwrap_or(100_000);
    let cpu_call = job["cpu_ms_call"].as_u64().unwrap_or(2000);
    let cpu_ctor = job["cpu_ms_ctor"].as_u64().unwrap_or(1000);
    let cpu_case_ms = job["cpu_ms_case"].as_u64().unwrap_or(30_000);
    let start = job["start"].as_u64().unwrap_or(0) as usize;
    let max_per_kind = job["max_viol_per_kind"].as_u64().unwrap_or(2);
    let profile = job["profile"].as_str().unwrap_or("release").to_string();
    let vseed = job["verif_seed"].as_u64().unwrap_or(0);
    let lat = lattice();

    for (idx, case) in cases.iter().enumerate() {
        if idx < start {
            continue;
        }
        emit(&json!({"ev": "begin", "case_idx": idx, "id": case.id}));
        flush();
        set_ctx(json!({"case_idx": idx, "case": case.to_json(), "phase": "ctor", "profile": profile}));
        BUDGET_MS.store(cpu_ctor, Ordering::Relaxed);
        tick();
        let built = guarded(|| subject(case));
        tick();
        let subj = match built {
            Caught::Ok(Ok(s)) => s,
            Caught::Ok(Err(e)) => {
                emit(&json!({"ev": "ctor_err", "case_idx": idx, "case": case.to_json(), "err": e}));
                continue;
            }
            Caught::Panic(m) => {
                emit(&json!({"ev": "ctor_panic", "case_idx": idx, "case": case.to_json(), "msg": m, "profile": profile}));
                continue;
            }
            _ => unreachable!(),
        };
        BUDGET_MS.store(cpu_call, Ordering::Relaxed);
        let mut viol = Viol { case, idx, counts: Default::default(), emitted: Default::default(), max_per_kind, profile: profile.clone() };
        let cseed = mix(&[vseed, idx as u64, 0xC03]);

        // (1) random streams
        set_ctx(json!({"case_idx": idx, "case": case.to_json(), "phase": "random", "profile": profile}));
        let mut rstats = Stats::new();
        {
            let seed = mix(&[cseed, 1]);
            let mut rng = Mon::new(AnyWords::S(Scripted::plain(seed)));
            let mut call = 0u64;
            let cpu0 = cpu_ms();
            while call < random_calls {
                // a case whose calls average more than ~300 us of CPU (1000x the usual) is cut short and reported
                if call & 0x3ff == 0 && call > 0 && cpu_ms() - cpu0 > cpu_case_ms {
                    emit(&json!({"ev": "slow", "case_idx": idx, "case": case.to_json(), "profile": profile, "calls": call, "cpu_ms": cpu_ms() - cpu0}));
                    break;
                }
                let before = rng.count;
                rng.budget = before + budget;
                set_abcd(seed, u64::MAX, 0, call);
                let r = guarded(|| subj.call(&mut rng));
                tick();
                let words = rng.count - before;
                match r {
                    Caught::Ok((sup, v)) => {
                        rstats.add(words, v);
                        match sup {
                            Sup::Ok => {}
                            Sup::NonFinite => viol.report("nonfinite", "random", seed, u64::MAX, 0, "random", call, words, Some(v), ""),
                            Sup::Outside => viol.report("outside", "random", seed, u64::MAX, 0, "random", call, words, Some(v), ""),
                        }
                    }
                    Caught::Panic(m) => viol.report(&format!("panic:{}", norm_panic(&m)), "random", seed, u64::MAX, 0, "random", call, words, None, &m),
                    Caught::Budget(n) => viol.report("budget", "random", seed, u64::MAX, 0, "random", call, n, None, "word budget exceeded"),
                    Caught::ReplayExhausted => unreachable!(),
                }
                call += 1;
            }
        }

        // (2) single-word-adversarial streams
        set_ctx(json!({"case_idx": idx, "case": case.to_json(), "phase": "adv", "profile": profile}));
        let mut astats = Stats::new();
        let mut adv_execs = 0u64;
        for &s in &seeds {
            let seed = mix(&[cseed, 2, s]);
            for pos in 0..positions {
                for (class, w) in &lat {
                    exec(subj.as_ref(), &mut viol, &mut astats, "adv", seed, pos, *w, class, budget, 64);
                    adv_execs += 1;
                }
            }
        }

        // (3) exhaustive f32 sweeps: all 2^24 high-bit patterns at the given positions
        let mut sstats = Stats::new();
        let mut sweep_execs = 0u64;
        if subj.is_f32() {
            set_ctx(json!({"case_idx": idx, "case": case.to_json(), "phase": "sweep", "profile": profile}));
            for &pos in &sweep_pos {
                let seed = mix(&[cseed, 3, pos]);
                let mut lowgen = Xo::new(mix(&[cseed, 4, pos]));
                for b in 0u64..(1 << 24) {
                    let low = lowgen.next() & 0xff_ffff_ffff;
                    let w = (b << 40) | low;
                    exec(subj.as_ref(), &mut viol, &mut sstats, "sweep", seed, pos, w, "sweep24", budget, 64);
                    sweep_execs += 1;
                }
            }
        }
        let sig = signature(&subj.debug());
        emit(&json!({
            "ev": "case", "case_idx": idx, "case": case.to_json(), "sig": sig, "profile": profile,
            "random": rstats.json(), "adv": astats.json(), "adv_execs": adv_execs, "lattice_words": lat.len(),
            "sweep": sstats.json(), "sweep_execs": sweep_execs,
            "viol_counts": viol.counts,
        }));
        flush();
    }
    BUDGET_MS.store(0, Ordering::Relaxed);
    emit(&json!({"ev": "done"}));
    flush();
}

/// Re-execute one recorded stream and print what happens on the recorded call.
pub fn replay(rec: &Value) {
    let case = Case::from_json(&rec["case"]);
    let st = &rec["stream"];
    let seed = st["seed"].as_u64().unwrap();
    let pos = st["pos"].as_u64().unwrap();
    let word = parse_hex64(st["word"].as_str().unwrap());
    let call_target = st["call"].as_u64().unwrap();
    let subj = match subject(&case) {
        Ok(s) => s,
        Err(e) => {
            println!("{}", json!({"replay": "ctor_err", "err": e}));
            return;
        }
    };
    let mut rng = Mon::new(AnyWords::S(Scripted::new(seed, pos, word)));
    for call in 0..=call_target {
        let before = rng.count;
        rng.budget = before + 100_000;
        let r = guarded(|| subj.call(&mut rng));
        let words = rng.count - before;
        if call == call_target {
            let out = match r {
                Caught::Ok((sup, v)) => json!({"replay": "returned", "support": format!("{sup:?}"), "value": v.show(), "value_bits": hex64(v.bits()), "words": words}),
                Caught::Panic(m) => json!({"replay": "panic", "msg": m, "words": words}),
                Caught::Budget(n) => json!({"replay": "budget", "words": n}),
                Caught::ReplayExhausted => unreachable!(),
            };
            println!("{out}");
        } else if !matches!(r, Caught::Ok(_)) {
            println!("{}", json!({"replay": "earlier_call_failed", "call": call}));
            return;
        }
    }
}
