//! Family registry: (family, float type, parameters) -> constructed value, sampler, support predicate.
use rand::Rng;
use rand_distr::*;
use serde_json::Value;

#[derive(Clone, Copy, Debug, PartialEq, Eq, Hash)]
pub enum Ty {
    F32,
    F64,
    U64,
}
impl Ty {
    pub fn name(self) -> &'static str {
        match self {
            Ty::F32 => "f32",
            Ty::F64 => "f64",
            Ty::U64 => "u64",
        }
    }
    pub fn parse(s: &str) -> Ty {
        match s {
            "f32" => Ty::F32,
            "f64" => Ty::F64,
            "u64" => Ty::U64,
            _ => panic!("bad ty {s}"),
        }
    }
}

#[derive(Clone, Copy, Debug, PartialEq)]
pub enum P {
    F(f64),
    U(u64),
}
impl P {
    pub fn f(self) -> f64 {
        match self {
            P::F(x) => x,
            P::U(u) => u as f64,
        }
    }
    pub fn u(self) -> u64 {
        match self {
            P::U(u) => u,
            P::F(x) => x as u64,
        }
    }
    pub fn enc(self) -> String {
        match self {
            P::F(x) => format!("f:{:016x}", x.to_bits()),
            P::U(u) => format!("u:{u}"),
        }
    }
    pub fn dec(s: &str) -> P {
        if let Some(h) = s.strip_prefix("f:") {
            P::F(f64::from_bits(u64::from_str_radix(h, 16).expect("hex")))
        } else if let Some(d) = s.strip_prefix("u:") {
            P::U(d.parse().expect("u64"))
        } else {
            panic!("bad param {s}")
        }
    }
}

#[derive(Clone, Debug)]
pub struct Case {
    pub id: String,
    pub fam: String,
    pub ty: Ty,
    pub p: Vec<P>,
}
impl Case {
    pub fn from_json(v: &Value) -> Case {
        Case {
            id: v["id"].as_str().unwrap_or("").to_string(),
            fam: v["fam"].as_str().expect("fam").to_string(),
            ty: Ty::parse(v["ty"].as_str().expect("ty")),
            p: v["p"]
                .as_array()
                .expect("p")
                .iter()
                .map(|s| P::dec(s.as_str().expect("param str")))
                .collect(),
        }
    }
    pub fn to_json(&self) -> Value {
        serde_json::json!({
            "id": self.id, "fam": self.fam, "ty": self.ty.name(),
            "p": self.p.iter().map(|p| p.enc()).collect::<Vec<_>>(),
            "p_human": self.p.iter().map(|p| match p { P::F(x) => format!("{x:e}"), P::U(u) => format!("{u}") }).collect::<Vec<_>>(),
        })
    }
    pub fn pf(&self) -> Vec<f64> {
        self.p.iter().map(|p| p.f()).collect()
    }
}

#[derive(Clone, Copy, Debug, PartialEq, Eq)]
pub enum Sup {
    Ok,
    /// NaN or infinite where the documentation names no infinite result
    NonFinite,
    /// finite but outside the mathematical support
    Outside,
}

macro_rules! gen_float_mod {
    ($m:ident, $F:ty) => {
        pub mod $m {
            use super::Sup;
            use rand::Rng;
            use rand_distr::*;
            pub type F = $F;
            #[derive(Clone, Debug, PartialEq)]
            pub enum D {
                StandardNormal,
                Exp1,
                Normal(Normal<F>),
                LogNormal(LogNormal<F>),
                Exp(Exp<F>),
                Gamma(Gamma<F>),
                ChiSquared(ChiSquared<F>),
                StudentT(StudentT<F>),
                FisherF(FisherF<F>),
                Beta(Beta<F>),
                Pert(Pert<F>),
                Triangular(Triangular<F>),
                Cauchy(Cauchy<F>),
                Pareto(Pareto<F>),
                Weibull(Weibull<F>),
                Gumbel(Gumbel<F>),
                Frechet(Frechet<F>),
                SkewNormal(SkewNormal<F>),
                InverseGaussian(InverseGaussian<F>),
                Nig(NormalInverseGaussian<F>),
                Poisson(Poisson<F>),
                Zipf(Zipf<F>),
                Zeta(Zeta<F>),
            }
            pub fn build(fam: &str, p: &[f64]) -> Result<D, String> {
                let a = |i: usize| p[i] as F;
                macro_rules! mk {
                    ($v:ident, $e:expr) => {
                        $e.map(D::$v).map_err(|e| format!("{:?}", e))
                    };
                }
                match fam {
                    "standard_normal" => Ok(D::StandardNormal),
                    "exp1" => Ok(D::Exp1),
                    "normal" => mk!(Normal, Normal::new(a(0), a(1))),
                    // alternate constructors (same value types): (mean, cv)
                    "normal_cv" => mk!(Normal, Normal::from_mean_cv(a(0), a(1))),
                    "log_normal_cv" => mk!(LogNormal, LogNormal::from_mean_cv(a(0), a(1))),
                    // pert_mean: min, max, mean, shape
                    "pert_mean" => mk!(Pert, Pert::new(a(0), a(1)).with_shape(a(3)).with_mean(a(2))),
                    "log_normal" => mk!(LogNormal, LogNormal::new(a(0), a(1))),
                    "exp" => mk!(Exp, Exp::new(a(0))),
                    "gamma" => mk!(Gamma, Gamma::new(a(0), a(1))),
                    "chi_squared" => mk!(ChiSquared, ChiSquared::new(a(0))),
                    "student_t" => mk!(StudentT, StudentT::new(a(0))),
                    "fisher_f" => mk!(FisherF, FisherF::new(a(0), a(1))),
                    "beta" => mk!(Beta, Beta::new(a(0), a(1))),
                    // pert: min, max, mode, shape
                    "pert" => mk!(Pert, Pert::new(a(0), a(1)).with_shape(a(3)).with_mode(a(2))),
                    // triangular: min, max, mode
                    "triangular" => mk!(Triangular, Triangular::new(a(0), a(1), a(2))),
                    "cauchy" => mk!(Cauchy, Cauchy::new(a(0), a(1))),
                    "pareto" => mk!(Pareto, Pareto::new(a(0), a(1))),
                    "weibull" => mk!(Weibull, Weibull::new(a(0), a(1))),
                    "gumbel" => mk!(Gumbel, Gumbel::new(a(0), a(1))),
                    "frechet" => mk!(Frechet, Frechet::new(a(0), a(1), a(2))),
                    "skew_normal" => mk!(SkewNormal, SkewNormal::new(a(0), a(1), a(2))),
                    "inverse_gaussian" => mk!(InverseGaussian, InverseGaussian::new(a(0), a(1))),
                    "nig" => mk!(Nig, NormalInverseGaussian::new(a(0), a(1))),
                    "poisson" => mk!(Poisson, Poisson::new(a(0))),
                    "zipf" => mk!(Zipf, Zipf::new(a(0), a(1))),
                    "zeta" => mk!(Zeta, Zeta::new(a(0))),
                    _ => Err(format!("unknown float family {fam}")),
                }
            }
            impl D {
                #[inline]
                pub fn sample<R: Rng + ?Sized>(&self, r: &mut R) -> F {
                    match self {
                        D::StandardNormal => StandardNormal.sample(r),
                        D::Exp1 => Exp1.sample(r),
                        D::Normal(d) => d.sample(r),
                        D::LogNormal(d) => d.sample(r),
                        D::Exp(d) => d.sample(r),
                        D::Gamma(d) => d.sample(r),
                        D::ChiSquared(d) => d.sample(r),
                        D::StudentT(d) => d.sample(r),
                        D::FisherF(d) => d.sample(r),
                        D::Beta(d) => d.sample(r),
                        D::Pert(d) => d.sample(r),
                        D::Triangular(d) => d.sample(r),
                        D::Cauchy(d) => d.sample(r),
                        D::Pareto(d) => d.sample(r),
                        D::Weibull(d) => d.sample(r),
                        D::Gumbel(d) => d.sample(r),
                        D::Frechet(d) => d.sample(r),
                        D::SkewNormal(d) => d.sample(r),
                        D::InverseGaussian(d) => d.sample(r),
                        D::Nig(d) => d.sample(r),
                        D::Poisson(d) => d.sample(r),
                        D::Zipf(d) => d.sample(r),
                        D::Zeta(d) => d.sample(r),
                    }
                }
            }
            impl D {
                /// bit patterns of `n` samples drawn through `Distribution::sample_iter`
                pub fn iter_bits<R: Rng>(&self, r: &mut R, n: usize) -> Vec<u64> {
                    macro_rules! it {
                        ($d:expr) => {
                            Distribution::<F>::sample_iter($d, r).take(n).map(|x: F| (x as f64).to_bits()).collect()
                        };
                    }
                    match self {
                        D::StandardNormal => it!(StandardNormal),
                        D::Exp1 => it!(Exp1),
                        D::Normal(d) => it!(d),
                        D::LogNormal(d) => it!(d),
                        D::Exp(d) => it!(d),
                        D::Gamma(d) => it!(d),
                        D::ChiSquared(d) => it!(d),
                        D::StudentT(d) => it!(d),
                        D::FisherF(d) => it!(d),
                        D::Beta(d) => it!(d),
                        D::Pert(d) => it!(d),
                        D::Triangular(d) => it!(d),
                        D::Cauchy(d) => it!(d),
                        D::Pareto(d) => it!(d),
                        D::Weibull(d) => it!(d),
                        D::Gumbel(d) => it!(d),
                        D::Frechet(d) => it!(d),
                        D::SkewNormal(d) => it!(d),
                        D::InverseGaussian(d) => it!(d),
                        D::Nig(d) => it!(d),
                        D::Poisson(d) => it!(d),
                        D::Zipf(d) => it!(d),
                        D::Zeta(d) => it!(d),
                    }
                }
            }
            fn ulp(x: F) -> F {
                let x = x.abs();
                if x == 0.0 {
                    return F::MIN_POSITIVE;
                }
                F::from_bits(x.to_bits() + 1) - x
            }
            /// The support predicate of C03 (parameters `p` as given to `build`).
            pub fn support(fam: &str, p: &[f64], x: F) -> Sup {
                let a = |i: usize| p[i] as F;
                if x.is_nan() {
                    return Sup::NonFinite;
                }
                let fin = |ok: bool| {
                    if !x.is_finite() {
                        Sup::NonFinite
                    } else if ok {
                        Sup::Ok
                    } else {
                        Sup::Outside
                    }
                };
                match fam {
                    "standard_normal" | "normal" | "normal_cv" | "cauchy" | "gumbel" | "skew_normal" | "nig"
                    | "student_t" => fin(true),
                    "exp" => {
                        // documented: Exp(0) samples +inf
                        if a(0) == 0.0 && x == F::INFINITY { Sup::Ok } else { fin(x >= 0.0) }
                    }
                    "gamma" => {
                        // documented: an infinite parameter samples +inf; near the upper limits of F
                        // (k theta > MAX / 2^10) the implementation may overflow to +inf
                        let near_limit = (a(0) as f64) * (a(1) as f64) > (F::MAX as f64) / 1024.0;
                        if (a(0).is_infinite() || a(1).is_infinite() || near_limit) && x == F::INFINITY {
                            Sup::Ok
                        } else {
                            fin(x >= 0.0)
                        }
                    }
                    "exp1" | "log_normal" | "log_normal_cv" | "chi_squared" | "fisher_f" | "weibull"
                    | "inverse_gaussian" => fin(x >= 0.0),
                    "beta" => fin(x >= 0.0 && x <= 1.0),
                    "pert" | "pert_mean" | "triangular" => {
                        let (lo, hi) = (a(0), a(1));
                        let big = if lo.abs() > hi.abs() { lo } else { hi };
                        let slack = 4.0 * ulp(big);
                        fin(x >= lo - slack && x <= hi + slack)
                    }
                    "pareto" => fin(x >= a(0)),
                    "frechet" => fin(x >= a(0)),
                    "poisson" => fin(x >= 0.0 && x == x.floor()),
                    "zipf" => fin(x >= 1.0 && x <= a(0) && x == x.floor()),
                    "zeta" => {
                        if x == F::INFINITY {
                            // documented: infinite when s is so close to 1 that the proposal
                            // u^(-1/(s-1)) overflows for the smallest reachable u
                            let s1 = (a(0) - 1.0) as f64;
                            let (bits, lnmax) = if core::mem::size_of::<F>() == 4 {
                                (24.0, (f32::MAX as f64).ln())
                            } else {
                                (53.0, f64::MAX.ln())
                            };
                            if bits * core::f64::consts::LN_2 / s1 > lnmax { Sup::Ok } else { Sup::NonFinite }
                        } else {
                            fin(x >= 1.0 && x == x.floor())
                        }
                    }
                    _ => panic!("support: unknown family {fam}"),
                }
            }
        }
    };
}
gen_float_mod!(m32, f32);
gen_float_mod!(m64, f64);

#[derive(Clone, Debug, PartialEq)]
pub enum DU {
    Binomial(Binomial),
    Geometric(Geometric),
    StandardGeometric,
    Hypergeometric(Hypergeometric),
}
impl DU {
    pub fn build(fam: &str, p: &[P]) -> Result<DU, String> {
        match fam {
            "binomial" => Binomial::new(p[0].u(), p[1].f()).map(DU::Binomial).map_err(|e| format!("{e:?}")),
            "geometric" => Geometric::new(p[0].f()).map(DU::Geometric).map_err(|e| format!("{e:?}")),
            "standard_geometric" => Ok(DU::StandardGeometric),
            "hypergeometric" => Hypergeometric::new(p[0].u(), p[1].u(), p[2].u())
                .map(DU::Hypergeometric)
                .map_err(|e| format!("{e:?}")),
            _ => Err(format!("unknown u64 family {fam}")),
        }
    }
    #[inline]
    pub fn sample<R: Rng + ?Sized>(&self, r: &mut R) -> u64 {
        match self {
            DU::Binomial(d) => d.sample(r),
            DU::Geometric(d) => d.sample(r),
            DU::StandardGeometric => StandardGeometric.sample(r),
            DU::Hypergeometric(d) => d.sample(r),
        }
    }
    pub fn support(fam: &str, p: &[P], x: u64) -> Sup {
        let ok = match fam {
            "binomial" => x <= p[0].u(),
            "geometric" | "standard_geometric" => true,
            "hypergeometric" => {
                let (n_pop, k_feat, n_s) = (p[0].u() as u128, p[1].u() as u128, p[2].u() as u128);
                let lo = (n_s + k_feat).saturating_sub(n_pop);
                let hi = n_s.min(k_feat);
                (x as u128) >= lo && (x as u128) <= hi
            }
            _ => panic!("support: unknown family {fam}"),
        };
        if ok { Sup::Ok } else { Sup::Outside }
    }
}

#[derive(Clone, Debug, PartialEq)]
pub enum Dist {
    F32(m32::D),
    F64(m64::D),
    U(DU),
}

/// Sample value in a uniform carrier: floats widened exactly to f64, integers as u64.
#[derive(Clone, Copy, Debug, PartialEq)]
pub enum Val {
    F(f64),
    U(u64),
}
impl Val {
    pub fn bits(self) -> u64 {
        match self {
            Val::F(x) => x.to_bits(),
            Val::U(u) => u,
        }
    }
    pub fn show(self) -> String {
        match self {
            Val::F(x) => format!("{x:e}"),
            Val::U(u) => format!("{u}"),
        }
    }
}

impl Dist {
    pub fn build(c: &Case) -> Result<Dist, String> {
        match c.ty {
            Ty::F32 => m32::build(&c.fam, &c.pf()).map(Dist::F32),
            Ty::F64 => m64::build(&c.fam, &c.pf()).map(Dist::F64),
            Ty::U64 => DU::build(&c.fam, &c.p).map(Dist::U),
        }
    }
    #[inline]
    pub fn sample<R: Rng + ?Sized>(&self, r: &mut R) -> Val {
        match self {
            Dist::F32(d) => Val::F(d.sample(r) as f64),
            Dist::F64(d) => Val::F(d.sample(r)),
            Dist::U(d) => Val::U(d.sample(r)),
        }
    }
    /// value as f64 for threshold comparisons (u64 converted with `as`, monotone)
    #[inline]
    pub fn sample_f64<R: Rng + ?Sized>(&self, r: &mut R) -> f64 {
        match self {
            Dist::F32(d) => d.sample(r) as f64,
            Dist::F64(d) => d.sample(r),
            Dist::U(d) => d.sample(r) as f64,
        }
    }
    pub fn iter_hashes<R: Rng>(&self, r: &mut R, n: usize) -> Vec<u64> {
        let bits: Vec<u64> = match self {
            Dist::F32(d) => d.iter_bits(r, n),
            Dist::F64(d) => d.iter_bits(r, n),
            Dist::U(d) => match d {
                DU::Binomial(b) => b.sample_iter(r).take(n).collect(),
                DU::Geometric(b) => b.sample_iter(r).take(n).collect(),
                DU::StandardGeometric => StandardGeometric.sample_iter(r).take(n).collect(),
                DU::Hypergeometric(b) => b.sample_iter(r).take(n).collect(),
            },
        };
        bits.into_iter().map(|b| (0xcbf29ce484222325u64 ^ b).wrapping_mul(0x100000001b3)).collect()
    }
    pub fn debug(&self) -> String {
        match self {
            Dist::F32(d) => format!("{d:?}"),
            Dist::F64(d) => format!("{d:?}"),
            Dist::U(d) => format!("{d:?}"),
        }
    }
}

pub fn support(c: &Case, v: Val) -> Sup {
    match (c.ty, v) {
        (Ty::F32, Val::F(x)) => m32::support(&c.fam, &c.pf(), x as f32),
        (Ty::F64, Val::F(x)) => m64::support(&c.fam, &c.pf(), x),
        (Ty::U64, Val::U(u)) => DU::support(&c.fam, &c.p, u),
        _ => panic!("support: type mismatch"),
    }
}

/// Variant signature: the Debug rendering with every number replaced by '#'.
pub fn signature(debug: &str) -> String {
    let b = debug.as_bytes();
    let mut out = String::new();
    let mut i = 0;
    while i < b.len() {
        let c = b[i] as char;
        let prev_alnum = i > 0 && ((b[i - 1] as char).is_ascii_alphanumeric() || b[i - 1] == b'_');
        if c.is_ascii_digit() && !prev_alnum {
            // consume a number: digits . e E + - inside
            let mut j = i;
            while j < b.len() {
                let d = b[j] as char;
                if d.is_ascii_digit() || d == '.' {
                    j += 1;
                } else if (d == 'e' || d == 'E') && j + 1 < b.len() && ((b[j + 1] as char).is_ascii_digit() || b[j + 1] == b'-') {
                    j += 2;
                } else {
                    break;
                }
            }
            out.push('#');
            i = j;
        } else if debug[i..].starts_with("inf") && !prev_alnum {
            out.push('#');
            i += 3;
        } else if debug[i..].starts_with("NaN") && !prev_alnum {
            out.push('#');
            i += 3;
        } else {
            out.push(c);
            i += 1;
        }
    }
    out
}
