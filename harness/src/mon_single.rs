//! Single-draw samplers: exhaustive f32 enumeration with output dump (C13, §3.3) and exact
//! threshold bisection over the 53/52-bit draw of f64 / u64 samplers (C01/C02, §3.2).
use crate::common::*;
use crate::fam::*;
use crate::rng::*;
use serde_json::{Value, json};
use std::io::Write;

pub fn sweepdump(job: &Value) {
    let cases: Vec<Case> = job["cases"].as_array().expect("cases").iter().map(Case::from_json).collect();
    let outdir = job["outdir"].as_str().expect("outdir");
    let vseed = job["verif_seed"].as_u64().unwrap_or(0);
    let start = job["start"].as_u64().unwrap_or(0) as usize;
    BUDGET_MS.store(10_000, std::sync::atomic::Ordering::Relaxed);
    for (idx, case) in cases.iter().enumerate() {
        if idx < start {
            continue;
        }
        emit(&json!({"ev": "begin", "case_idx": idx, "id": case.id}));
        flush();
        set_ctx(json!({"case_idx": idx, "case": case.to_json(), "phase": "sweepdump"}));
        assert!(case.ty == Ty::F32, "sweepdump is for f32 cases");
        let d = match Dist::build(case) {
            Ok(Dist::F32(d)) => d,
            Ok(_) => unreachable!(),
            Err(e) => {
                emit(&json!({"ev": "ctor_err", "case_idx": idx, "case": case.to_json(), "err": e}));
                continue;
            }
        };
        let seed = mix(&[vseed, idx as u64, 0xC13]);
        let mut low = Xo::new(seed ^ 0x1111);
        let mut buf: Vec<u8> = Vec::with_capacity(4 << 24);
        let (mut multi, mut panics, mut nonfinite, mut outside) = (0u64, 0u64, 0u64, 0u64);
        let mut first_bad: Option<Value> = None;
        let pf = case.pf();
        for b in 0u64..(1 << 24) {
            let w = (b << 40) | (low.next() & 0xff_ffff_ffff);
            let mut rng = Mon::new(Scripted::new(seed, 0, w)).budget(1000);
            if b & 0xffff == 0 {
                tick();
            }
            let r = guarded(|| d.sample(&mut rng));
            let x = match r {
                Caught::Ok(x) => x,
                _ => {
                    panics += 1;
                    if first_bad.is_none() {
                        first_bad = Some(json!({"kind": "panic", "word": hex64(w)}));
                    }
                    f32::NAN
                }
            };
            if rng.count != 1 {
                multi += 1;
            }
            match m32::support(&case.fam, &pf, x) {
                Sup::Ok => {}
                Sup::NonFinite => {
                    nonfinite += 1;
                    if first_bad.is_none() {
                        first_bad = Some(json!({"kind": "nonfinite", "word": hex64(w), "value": format!("{x:e}")}));
                    }
                }
                Sup::Outside => {
                    outside += 1;
                    if first_bad.is_none() {
                        first_bad = Some(json!({"kind": "outside", "word": hex64(w), "value": format!("{x:e}")}));
                    }
                }
            }
            buf.extend_from_slice(&x.to_le_bytes());
        }
        let path = format!("{outdir}/case_{idx}.f32");
        std::fs::File::create(&path).and_then(|mut f| f.write_all(&buf)).expect("write dump");
        emit(&json!({"ev": "dump", "case_idx": idx, "case": case.to_json(), "file": path, "n": 1u64 << 24, "multiword_calls": multi, "panics": panics,
                     "nonfinite": nonfinite, "outside": outside, "first_bad": first_bad, "seed": seed, "sig": signature(&Dist::F32(d).debug())}));
        flush();
    }
    emit(&json!({"ev": "done"}));
    flush();
}

/// outcome of one call with the first word's top `bits` bits = k
#[derive(Clone, Copy, PartialEq, Debug)]
enum Out {
    V(f64),
    /// consumed more than one word (e.g. BINV restart): treated as "beyond the top end"
    Multi,
    Panic,
}

pub fn bisect(job: &Value) {
    let cases = job["cases"].as_array().expect("cases");
    let vseed = job["verif_seed"].as_u64().unwrap_or(0);
    let start = job["start"].as_u64().unwrap_or(0) as usize;
    BUDGET_MS.store(10_000, std::sync::atomic::Ordering::Relaxed);
    for (idx, cj) in cases.iter().enumerate() {
        if idx < start {
            continue;
        }
        let case = Case::from_json(cj);
        emit(&json!({"ev": "begin", "case_idx": idx, "id": case.id}));
        set_ctx(json!({"case_idx": idx, "case": case.to_json(), "phase": "bisect"}));
        let bits = cj["bits"].as_u64().unwrap_or(53);
        let shift = 64 - bits;
        // pieces of the k-range on each of which the sampler must be monotone: [[lo, hi), ...]
        let pieces: Vec<(u64, u64)> = match cj["pieces"].as_array() {
            Some(a) => a.iter().map(|p| (p[0].as_u64().unwrap(), p[1].as_u64().unwrap())).collect(),
            None => vec![(0, 1u64 << bits)],
        };
        // thresholds: hex f64 bits (float outputs) or decimal u64 (integer outputs, compared as f64)
        let thr: Vec<f64> = cj["thr"].as_array().expect("thr").iter().map(|t| P::dec(t.as_str().unwrap()).f()).collect();
        let d = match Dist::build(&case) {
            Ok(d) => d,
            Err(e) => {
                emit(&json!({"ev": "ctor_err", "case_idx": idx, "case": case.to_json(), "err": e}));
                continue;
            }
        };
        let seed = mix(&[vseed, idx as u64, 0xB15]);
        let lowmask = (1u64 << shift) - 1;
        let mut calls = 0u64;
        let mut eval = |k: u64, low: u64| -> Out {
            let w = (k << shift) | (low & lowmask);
            let mut rng = Mon::new(Scripted::new(seed, 0, w)).budget(100_000);
            calls += 1;
            if calls & 0xfff == 0 {
                tick();
            }
            match guarded(|| d.sample_f64(&mut rng)) {
                Caught::Ok(x) => if rng.count == 1 { Out::V(x) } else { Out::Multi },
                _ => Out::Panic,
            }
        };
        // ---- preconditions
        let mut pr = Xo::new(seed ^ 0x9999);
        let (mut multi, mut panics, mut lowdep, mut nonmono) = (0u64, 0u64, 0u64, 0u64);
        let mut dirs: Vec<i32> = vec![];
        let mut applicable = true;
        for &(lo, hi) in &pieces {
            // direction from the piece's extreme words (skipping Multi at the ends)
            let a = eval(lo, 0);
            let b = eval(hi - 1, lowmask);
            let dir = match (a, b) {
                (Out::V(x), Out::V(y)) => if x <= y { 1 } else { -1 },
                (Out::V(_), Out::Multi) => {
                    // restart region at the top: take direction from the lower half
                    match eval(lo + (hi - lo) / 2, 0) {
                        Out::V(y) => if let Out::V(x) = a { if x <= y { 1 } else { -1 } } else { 1 },
                        _ => 1,
                    }
                }
                _ => {
                    applicable = false;
                    1
                }
            };
            dirs.push(dir);
            for _ in 0..3000 {
                let k1 = lo + pr.below(hi - lo);
                let k2 = lo + pr.below(hi - lo);
                let (k1, k2) = if k1 <= k2 { (k1, k2) } else { (k2, k1) };
                let (o1, o2) = (eval(k1, pr.next()), eval(k2, pr.next()));
                match (o1, o2) {
                    (Out::V(x), Out::V(y)) => {
                        if (dir > 0 && x > y) || (dir < 0 && x < y) {
                            nonmono += 1;
                        }
                    }
                    (Out::Multi, Out::V(_)) => nonmono += 1, // restart region must be at the top
                    (Out::Panic, _) | (_, Out::Panic) => panics += 1,
                    _ => {}
                }
                if o1 == Out::Multi || o2 == Out::Multi {
                    multi += 1;
                }
                // independence of the discarded low bits
                if eval(k1, pr.next()) != o1 {
                    lowdep += 1;
                }
            }
        }
        if nonmono > 0 || lowdep > 0 || panics > 0 {
            applicable = false;
        }
        if !applicable {
            emit(&json!({"ev": "bisect_na", "case_idx": idx, "case": case.to_json(), "nonmonotone": nonmono, "lowbit_dependence": lowdep, "panics": panics, "multi": multi}));
            flush();
            continue;
        }
        // ---- restart region: smallest k in the last piece with Multi (monotone predicate)
        let mut restart_words = 0u64;
        let mut piece_top: Vec<u64> = pieces.iter().map(|p| p.1).collect();
        {
            let last = pieces.len() - 1;
            let (lo, hi) = pieces[last];
            if eval(hi - 1, 0) == Out::Multi {
                let (mut a, mut b) = (lo, hi - 1);
                while a < b {
                    let m = a + (b - a) / 2;
                    if eval(m, 0) == Out::Multi { b = m } else { a = m + 1 }
                }
                restart_words = hi - a;
                piece_top[last] = a;
            }
        }
        // ---- counts: number of k with output <= t
        let mut counts: Vec<u64> = Vec::with_capacity(thr.len());
        for &t in &thr {
            let mut total = 0u64;
            for (pi, &(lo, _)) in pieces.iter().enumerate() {
                let hi = piece_top[pi];
                let dir = dirs[pi];
                // predicate P(k) = (f(k) <= t): for dir>0 true on a prefix, for dir<0 true on a suffix
                let pred = |o: Out| -> bool { matches!(o, Out::V(x) if x <= t) };
                if dir > 0 {
                    // first k where !P
                    let (mut a, mut b) = (lo, hi);
                    while a < b {
                        let m = a + (b - a) / 2;
                        if pred(eval(m, 0)) { a = m + 1 } else { b = m }
                    }
                    total += a - lo;
                } else {
                    // first k where P
                    let (mut a, mut b) = (lo, hi);
                    while a < b {
                        let m = a + (b - a) / 2;
                        if pred(eval(m, 0)) { b = m } else { a = m + 1 }
                    }
                    total += hi - a;
                }
            }
            counts.push(total);
        }
        emit(&json!({"ev": "bisect", "case_idx": idx, "case": case.to_json(), "bits": bits, "counts": counts.iter().map(|c| c.to_string()).collect::<Vec<_>>(),
                     "restart_words": restart_words.to_string(), "dirs": dirs, "calls": calls, "sig": signature(&d.debug()), "seed": seed}));
        flush();
    }
    emit(&json!({"ev": "done"}));
    flush();
}

/// Exact induced law of the two-draw f32 rejection samplers (Zipf, Zeta): for every one of the 2^24 patterns of
/// the proposal draw, the acceptance probability is located exactly by bisection over the 24-bit pattern of the
/// acceptance draw; rounds are i.i.d., so P(X = k) = A_k / sum_j A_j with A_k = sum over proposal patterns that
/// propose k of (accepted acceptance patterns).  No sampling error.
pub fn exact2(job: &Value) {
    let cases: Vec<Case> = job["cases"].as_array().expect("cases").iter().map(Case::from_json).collect();
    let kmax = job["kmax"].as_u64().unwrap_or(4096) as usize;
    let vseed = job["verif_seed"].as_u64().unwrap_or(0);
    // the 2^24 proposal patterns may be split over several processes: [b_lo, b_hi)
    let b_lo = job["b_lo"].as_u64().unwrap_or(0);
    let b_hi = job["b_hi"].as_u64().unwrap_or(1 << 24);
    BUDGET_MS.store(20_000, std::sync::atomic::Ordering::Relaxed);
    for (idx, case) in cases.iter().enumerate() {
        emit(&json!({"ev": "begin", "case_idx": idx, "id": case.id}));
        flush();
        set_ctx(json!({"case_idx": idx, "case": case.to_json(), "phase": "exact2"}));
        assert!(case.ty == Ty::F32);
        let d = match Dist::build(case) {
            Ok(Dist::F32(d)) => d,
            _ => {
                emit(&json!({"ev": "ctor_err", "case_idx": idx, "case": case.to_json()}));
                continue;
            }
        };
        let seed = mix(&[vseed, 0xE2]);
        // one call with proposal pattern b and acceptance pattern c: (value, words)
        let call = |b: u64, c: u64| -> (f32, u64) {
            let mut r = Mon::new(Scripted::new(seed, 0, (b << 40) | 0x12_3456_789a));
            r.inner.pos2 = 1;
            r.inner.word2 = (c << 40) | 0x0f_edcb_a987;
            let x = d.sample(&mut r);
            (x, r.count)
        };
        let mut acc: Vec<u128> = vec![0; kmax + 2]; // index k for k <= kmax, kmax+1 = beyond
        let mut rejected_before_second = 0u64;
        let mut nonfinite: u128 = 0; // induced mass (in 2^-48 units) on NaN / infinite outputs
        let mut nonmono = 0u64;
        let mut calls = 0u64;
        let top = (1u64 << 24) - 1;
        for b in b_lo..b_hi.min(top + 1) {
            if b & 0xffff == 0 {
                tick();
            }
            let (x0, n0) = call(b, 0);
            calls += 1;
            let slot = |x: f32| -> usize { if x.is_finite() && x >= 0.0 && (x as usize) <= kmax { x as usize } else { kmax + 1 } };
            if n0 == 1 {
                // returned without an acceptance draw (Zeta: infinite proposal)
                acc[slot(x0)] += 1 << 24;
                if !x0.is_finite() {
                    nonfinite += 1 << 24;
                }
                continue;
            }
            if n0 != 2 {
                // proposal rejected outright (Zipf: rank above n) or acceptance pattern 0 rejected
                rejected_before_second += 1;
                continue;
            }
            // accepted with c = 0; find the number of accepted patterns (prefix property checked at the top end)
            let (xt, nt) = call(b, top);
            calls += 1;
            let cnt = if nt == 2 && xt.to_bits() == x0.to_bits() {
                1u64 << 24
            } else {
                let (mut lo, mut hi) = (0u64, top); // lo accepted, hi rejected
                while hi - lo > 1 {
                    let mid = lo + (hi - lo) / 2;
                    let (xm, nm) = call(b, mid);
                    calls += 1;
                    if nm == 2 && xm.to_bits() == x0.to_bits() { lo = mid } else { hi = mid }
                }
                // spot-check the prefix property just below the boundary
                if lo > 4 {
                    let (xp, np) = call(b, lo - 3);
                    calls += 1;
                    if !(np == 2 && xp.to_bits() == x0.to_bits()) {
                        nonmono += 1;
                    }
                }
                lo + 1
            };
            acc[slot(x0)] += cnt as u128;
            if !x0.is_finite() {
                nonfinite += cnt as u128;
            }
        }
        emit(&json!({"ev": "exact2", "case_idx": idx, "case": case.to_json(), "kmax": kmax, "acc": acc.iter().map(|a| a.to_string()).collect::<Vec<_>>(),
                     "rejected_outright": rejected_before_second, "nonfinite": nonfinite.to_string(), "nonmonotone": nonmono, "calls": calls, "sig": signature(&Dist::F32(d).debug())}));
        flush();
    }
    emit(&json!({"ev": "done"}));
    flush();
}
