#![allow(dead_code, unused_imports)]
//! rdv — runtime monitors for rand_distr (see /verif/DESIGN.md).
//! usage: rdv <subcommand> <job.json> [--out file]
mod common;
mod fam;
mod mon_adv;
mod mon_alias;
mod mon_ctor;
mod mon_law;
mod mon_multi;
mod mon_pair;
mod mon_pure;
mod mon_serde;
mod mon_single;
mod mon_tree;
mod rng;
mod subject;

use serde_json::Value;

fn main() {
    let args: Vec<String> = std::env::args().collect();
    if args.len() < 2 {
        eprintln!("usage: rdv <cmd> <job.json> [--out path]");
        std::process::exit(2);
    }
    let cmd = args[1].as_str();
    let job: Value = if args.len() > 2 && !args[2].starts_with("--") {
        let s = std::fs::read_to_string(&args[2]).unwrap_or_else(|e| panic!("read {}: {e}", args[2]));
        serde_json::from_str(&s).expect("job json")
    } else {
        Value::Null
    };
    let mut append = false;
    let mut i = 2;
    while i < args.len() {
        if args[i] == "--append" {
            append = true;
        }
        i += 1;
    }
    if let Some(i) = args.iter().position(|a| a == "--out") {
        common::open_out(&args[i + 1], append);
    }
    common::install_panic_hook();
    common::start_watchdog();
    // safety net: every call into the crate is meant to run under `guarded`; a panic that still escapes a monitor is
    // reported with its location (the driver turns a panic located in the crate into a violation, any other into a
    // broken harness) instead of killing the process without a trace
    let outcome = common::guarded(std::panic::AssertUnwindSafe(|| dispatch(cmd, &job)));
    if !matches!(outcome, common::Caught::Ok(())) {
        let msg = match outcome {
            common::Caught::Panic(m) => m,
            common::Caught::Budget(n) => format!("<WordBudget {n}>"),
            _ => "<ReplayExhausted>".to_string(),
        };
        common::emit(&serde_json::json!({"ev": "escaped_panic", "cmd": cmd, "msg": msg, "ctx": common::get_ctx()}));
        common::flush();
        std::process::exit(4);
    }
    common::flush();
}

fn dispatch(cmd: &str, job: &Value) {
    let job = job.clone();
    match cmd {
        "adv" => mon_adv::run(&job),
        "replay-adv" => mon_adv::replay(&job),
        "ctor" => mon_ctor::run(&job),
        "c07" => mon_pair::run(&job),
        "c14" => mon_pure::run(&job),
        "law" => mon_law::run(&job),
        "c11" => mon_multi::run_c11(&job),
        "c12" => mon_multi::run_c12(&job),
        "pair32" => mon_law::pair32(&job),
        "zigdump" => mon_law::zigdump(),
        "zigprobe" => mon_law::zigprobe(&job),
        "c15" => mon_serde::run(&job),
        "c08" => mon_alias::run(&job),
        "sweepdump" => mon_single::sweepdump(&job),
        "bisect" => mon_single::bisect(&job),
        "exact2" => mon_single::exact2(&job),
        "c09" => mon_tree::run_c09(&job),
        "c10" => mon_tree::run_c10(&job),
        "c10-recount" => mon_tree::run_c10_recount(&job),
        "lattice" => {
            for (n, w) in rng::lattice() {
                println!("{n} {w:016x}");
            }
        }
        _ => {
            eprintln!("unknown subcommand {cmd}");
            std::process::exit(2);
        }
    }
}
