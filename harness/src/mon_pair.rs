//! C07 monitor: location / scale act as exact affine maps on a fixed stream (paired runs, §3.5).
use crate::common::*;
use crate::rng::*;
use serde_json::{Value, json};

#[derive(Clone, Copy, Debug, PartialEq)]
enum Map {
    /// x1 = loc + scale * x0, general finite (loc, scale); `extra` additional ulps of x1 allowed
    Affine { loc: f64, scale: f64, extra: f64 },
    /// x1 == c * x0 exactly (c a power of two)
    Pow2(f64),
    /// x1 = x0 + s with parameters on a grid where the shift is exact
    Shift(f64),
}

struct Tally {
    fam: String,
    ty: &'static str,
    pairs: u64,
    skipped: u64,
    nviol: u64,
    maxrel: f64,
}

macro_rules! affine_mod {
    ($m:ident, $mm:ident, $F:ty, $tyname:expr) => {
        pub mod $m {
            use super::*;
            use crate::fam::$mm as fm;
            use rand_distr::num_traits::Float;
            use rand_distr::{Distribution, LogNormal, Normal, StandardNormal};
            type F = $F;
            const IS32: bool = core::mem::size_of::<F>() == 4;

            fn ulp(x: F) -> f64 {
                let x = x.abs();
                if !x.is_finite() {
                    return f64::INFINITY;
                }
                let n = F::from_bits(x.to_bits() + 1);
                if n.is_finite() { (n - x) as f64 } else { (x - F::from_bits(x.to_bits() - 1)) as f64 }
            }
            /// |x1 - (a + b*x0)| evaluated with a double-double product/sum (exact enough for both types)
            fn err_affine(x1: F, a: F, b: F, x0: F) -> f64 {
                let (a, b, x0, x1) = (a as f64, b as f64, x0 as f64, x1 as f64);
                let p = b * x0;
                let pe = b.mul_add(x0, -p); // exact error of the product
                let s = a + p;
                let bb = s - a;
                let se = (a - (s - bb)) + (p - bb); // TwoSum error
                // x1 - s is exact when x1 is close to s (Sterbenz); otherwise the difference is huge anyway
                ((x1 - s) - (se + pe)).abs()
            }

            fn streams(vseed: u64, n_random: u64, positions: u64) -> Vec<(u64, u64, u64)> {
                let mut v = vec![];
                for k in 0..n_random {
                    v.push((mix(&[vseed, k, 0xC07]), u64::MAX, 0));
                }
                for (si, s) in [mix(&[vseed, 0xAA]), mix(&[vseed, 0xBB])].iter().enumerate() {
                    let _ = si;
                    for pos in 0..positions {
                        for (_, w) in lattice() {
                            v.push((*s, pos, w));
                        }
                    }
                }
                v
            }

            #[allow(clippy::too_many_arguments)]
            fn pair(fam: &str, p0: &[f64], p1: &[f64], map: Map, strm: &[(u64, u64, u64)], t: &mut Tally, profile: &str) {
                let (d0, d1) = match (fm::build(fam, p0), fm::build(fam, p1)) {
                    (Ok(a), Ok(b)) => (a, b),
                    (Ok(_), Err(e)) => {
                        // the canonical member is accepted but its affine image is not: the map must preserve validity
                        t.nviol += 1;
                        emit(&json!({"ev": "viol", "fam": fam, "ty": $tyname, "kind": "image_rejected", "p0": p0, "p1": p1, "map": format!("{map:?}"),
                            "msg": format!("constructor rejects the affine image of an accepted parameter set: {e}"), "profile": profile}));
                        return;
                    }
                    (a, b) => {
                        emit(&json!({"ev": "ctor_err", "fam": fam, "ty": $tyname, "p0": p0, "p1": p1, "err": format!("{:?} {:?}", a.err(), b.err())}));
                        return;
                    }
                };
                for &(seed, pos, word) in strm {
                    let mut r0 = Mon::new(Scripted::new(seed, pos, word)).budget(100_000);
                    let mut r1 = Mon::new(Scripted::new(seed, pos, word)).budget(100_000);
                    // several calls so that a scripted word at position > 0 is reached
                    for call in 0..4u64 {
                        tick();
                        let out = guarded(|| (d0.sample(&mut r0), d1.sample(&mut r1)));
                        let (x0, x1) = match out {
                            Caught::Ok(v) => v,
                            _ => break,
                        };
                        t.pairs += 1;
                        let mut bad: Option<String> = None;
                        if r0.count != r1.count {
                            bad = Some(format!("words consumed differ: {} vs {}", r0.count, r1.count));
                        } else if !x0.is_finite() || !x1.is_finite() {
                            t.skipped += 1;
                        } else {
                            match map {
                                Map::Affine { loc, scale, extra } => {
                                    let (a, b) = (loc as F, scale as F);
                                    let prod = b * x0;
                                    if !prod.is_finite() || !(a + prod).is_finite() || (prod != 0.0 && prod.abs() < F::MIN_POSITIVE) {
                                        t.skipped += 1;
                                    } else {
                                        let e = err_affine(x1, a, b, x0);
                                        let bound = (2.0 + extra) * ulp(x1) + 2.0 * ulp(prod);
                                        if bound > 0.0 {
                                            t.maxrel = t.maxrel.max(e / bound);
                                        }
                                        if e > bound {
                                            bad = Some(format!("x1 = {x1:e} vs loc + scale*x0 with x0 = {x0:e}: error {e:e} > bound {bound:e}"));
                                        }
                                    }
                                }
                                Map::Pow2(c) => {
                                    let want = (c as F) * x0;
                                    if !want.is_finite() || (want != 0.0 && want.abs() < F::MIN_POSITIVE) || (x0 != 0.0 && x0.abs() < F::MIN_POSITIVE) {
                                        t.skipped += 1;
                                    } else if x1.to_bits() != want.to_bits() {
                                        bad = Some(format!("x1 = {x1:e} != {c} * x0 = {want:e} (power-of-two scaling must be exact)"));
                                    }
                                }
                                Map::Shift(s) => {
                                    let e = ((x1 as f64) - ((x0 as f64) + s)).abs();
                                    let bound = 2.0 * ulp(x1) + 2.0 * ulp(x0);
                                    t.maxrel = t.maxrel.max(e / bound);
                                    if e > bound {
                                        bad = Some(format!("x1 = {x1:e} vs x0 + {s} with x0 = {x0:e}: error {e:e} > bound {bound:e}"));
                                    }
                                }
                            }
                        }
                        if let Some(msg) = bad {
                            t.nviol += 1;
                            if t.nviol <= 3 {
                                emit(&json!({"ev": "viol", "fam": fam, "ty": $tyname, "kind": if msg.starts_with("words") { "word_count" } else { "affine_map" }, "p0": p0, "p1": p1, "map": format!("{map:?}"),
                                    "stream": {"seed": seed, "pos": pos, "word": hex64(word), "call": call}, "msg": msg, "profile": profile}));
                            }
                            break;
                        }
                        if r0.inner.idx > pos && pos != u64::MAX {
                            break;
                        }
                    }
                    // RNG left in the same state
                    if r0.inner.base.clone().next() != r1.inner.base.clone().next() {
                        t.nviol += 1;
                        emit(&json!({"ev": "viol", "fam": fam, "ty": $tyname, "kind": "rng_state", "p0": p0, "p1": p1, "stream": {"seed": seed, "pos": pos, "word": hex64(word)}, "msg": "RNG states differ after paired calls", "profile": profile}));
                    }
                }
            }

            /// Triangular / Pert under a general affine map of the support (min, max and the mode or mean mapped with
            /// it): on one stream the mapped member must return the affine image of the canonical sample up to the
            /// rounding of the mapped parameters. A single acceptance decision may legitimately flip on a rounding
            /// boundary, so isolated mismatches are counted as flips; a mismatch *rate* above 1 % of the streams of
            /// one (base, map) pair is a violation (a different algorithm / stream use shows on every stream).
            fn pair_general(fam: &str, p0: &[f64], loc: f64, scale: f64, strm: &[(u64, u64, u64)], t: &mut Tally, g: &mut (u64, u64, f64), profile: &str) {
                let r = |x: f64| (x as F) as f64;
                let mut p1 = p0.to_vec();
                for v in p1.iter_mut().take(3) {
                    *v = r(r(scale) * *v + r(loc));
                }
                let (d0, d1) = match (fm::build(fam, p0), fm::build(fam, &p1)) {
                    (Ok(a), Ok(b)) => (a, b),
                    (Ok(_), Err(e)) => {
                        t.nviol += 1;
                        emit(&json!({"ev": "viol", "fam": fam, "ty": $tyname, "kind": "image_rejected", "p0": p0, "p1": p1, "map": format!("General({loc}, {scale})"),
                            "msg": format!("constructor rejects the affine image of an accepted parameter set: {e}"), "profile": profile}));
                        return;
                    }
                    _ => return,
                };
                let (a0, b0, a1, b1) = (p0[0], p0[1], p1[0], p1[1]);
                // the samplers subtract nearly equal quantities next to the ends of the support (range - f*range): the
                // rounding of the mapped parameters is amplified to ~sqrt(eps) of the range there
                let tol_rel = 4.0 * (F::EPSILON as f64).sqrt();
                let (mut n, mut mism, mut first): (u64, u64, Option<Value>) = (0, 0, None);
                // lattice streams share their other words (two base seeds), so one knife-edge decision shows on dozens of
                // them at once: they are judged at a 10 % rate, the independent random streams at 1 %
                let (mut n_rand, mut mism_rand) = (0u64, 0u64);
                for &(seed, pos, word) in strm {
                    let mut r0 = Mon::new(Scripted::new(seed, pos, word)).budget(100_000);
                    let mut r1 = Mon::new(Scripted::new(seed, pos, word)).budget(100_000);
                    for call in 0..4u64 {
                        tick();
                        let (x0, x1) = match guarded(|| (d0.sample(&mut r0), d1.sample(&mut r1))) {
                            Caught::Ok(v) => v,
                            _ => break,
                        };
                        t.pairs += 1;
                        n += 1;
                        n_rand += (pos == u64::MAX) as u64;
                        let want = a1 + (b1 - a1) * ((x0 as f64 - a0) / (b0 - a0));
                        let e = (x1 as f64 - want).abs();
                        let bound = tol_rel * (b1 - a1).abs() + 4.0 * ulp(x1);
                        let words_differ = r0.count != r1.count;
                        if !words_differ {
                            g.2 = g.2.max(e / bound);
                        }
                        if words_differ || !(e <= bound) {
                            mism += 1;
                            mism_rand += (pos == u64::MAX) as u64;
                            if first.is_none() {
                                first = Some(json!({"stream": {"seed": seed, "pos": pos, "word": hex64(word), "call": call}, "x0": x0 as f64, "x1": x1 as f64, "image": want, "words": [r0.count, r1.count]}));
                            }
                            break; // the streams are desynchronised or the next decision is already perturbed
                        }
                        if r0.inner.idx > pos && pos != u64::MAX {
                            break;
                        }
                    }
                }
                g.0 += n;
                let (n_lat, mism_lat) = (n - n_rand, mism - mism_rand);
                if (mism_rand >= 3 && mism_rand * 100 > n_rand) || (mism_lat >= 10 && mism_lat * 10 > n_lat) {
                    t.nviol += 1;
                    emit(&json!({"ev": "viol", "fam": fam, "ty": $tyname, "kind": "affine_map", "p0": p0, "p1": p1, "map": format!("General({loc}, {scale})"),
                        "msg": format!("{mism_rand} of {n_rand} paired calls on random streams and {mism_lat} of {n_lat} on lattice streams are not the affine image of the canonical sample (or consume a different number of words)"), "first": first, "profile": profile}));
                } else {
                    g.1 += mism;
                }
            }

            pub fn run(vseed: u64, n_random: u64, positions: u64, n_maps: usize, profile: &str) {
                let strm = streams(vseed, n_random, positions);
                let big: f64 = if IS32 { 1e30 } else { 1e300 };
                let tiny: f64 = if IS32 { 1e-30 } else { 1e-300 };
                let r = |x: f64| (x as F) as f64;
                let mut rng = Xo::new(mix(&[vseed, 0x707]));
                // finite (loc, scale) pairs in E: fixed extremes + random
                let mut ls: Vec<(f64, f64)> = vec![(0.0, 1.0), (1.0, 1.0), (0.0, 2.0), (10.0, 10.0), (-3.5, 1e-3), (1e6, 1.0), (big / 1e3, big / 1e25), (0.0, tiny), (5.0, 1e3), (-7.25, 0.1), (1.0, 3.0),
                    // the largest scales of E: the image may overflow to inf (then only the word counts are compared)
                    (0.0, big), (1.0, big / 1e4)];
                for _ in 0..n_maps {
                    let l = (rng.unit() * 2.0 - 1.0) * 10f64.powf(rng.unit() * 12.0 - 6.0);
                    let s = 10f64.powf(rng.unit() * 12.0 - 6.0);
                    ls.push((r(l), r(s)));
                }
                let mut tallies: Vec<Tally> = vec![];
                macro_rules! fam_run {
                    ($fam:expr, $body:expr) => {{
                        let mut t = Tally { fam: $fam.to_string(), ty: $tyname, pairs: 0, skipped: 0, nviol: 0, maxrel: 0.0 };
                        set_ctx(json!({"phase": "c07", "fam": $fam, "ty": $tyname}));
                        #[allow(clippy::redundant_closure_call)]
                        ($body)(&mut t);
                        tallies.push(t);
                    }};
                }
                let aff = |l: f64, s: f64| Map::Affine { loc: l, scale: s, extra: 0.0 };
                fam_run!("normal", |t: &mut Tally| {
                    for &(l, s) in &ls {
                        pair("normal", &[0.0, 1.0], &[l, s], aff(l, s), &strm, t, profile);
                        pair("normal", &[0.0, 1.0], &[l, -s], aff(l, -s), &strm, t, profile); // negative std_dev is allowed
                    }
                });
                fam_run!("cauchy", |t: &mut Tally| {
                    for &(l, s) in &ls {
                        // keep scale * 2^54 finite (envelope)
                        if s * 2e16 < big {
                            pair("cauchy", &[0.0, 1.0], &[l, s], aff(l, s), &strm, t, profile);
                        }
                    }
                });
                fam_run!("gumbel", |t: &mut Tally| {
                    for &(l, s) in &ls {
                        pair("gumbel", &[0.0, 1.0], &[l, s], aff(l, s), &strm, t, profile);
                    }
                });
                fam_run!("frechet", |t: &mut Tally| {
                    for &al in &[0.2, 0.5, 1.0, 3.0, 50.0] {
                        for &(l, s) in &ls {
                            pair("frechet", &[0.0, 1.0, al], &[l, s, al], aff(l, s), &strm, t, profile);
                        }
                    }
                });
                fam_run!("skew_normal", |t: &mut Tally| {
                    for &sh in &[0.0, 1.0, -1.0, 2.5, -0.3] {
                        for &(l, s) in &ls {
                            pair("skew_normal", &[0.0, 1.0, sh], &[l, s, sh], aff(l, s), &strm, t, profile);
                        }
                    }
                });
                fam_run!("exp", |t: &mut Tally| {
                    for &(_, s) in &ls {
                        // rate lambda = s: scale 1/lambda as computed in F (one extra rounding)
                        let inv = (1.0 as F / s as F) as f64;
                        pair("exp", &[1.0], &[s], Map::Affine { loc: 0.0, scale: inv, extra: 1.0 }, &strm, t, profile);
                    }
                });
                fam_run!("gamma", |t: &mut Tally| {
                    for &k in &[0.3, 1.0, 2.5, 40.0] {
                        for &(_, s) in &ls {
                            pair("gamma", &[k, 1.0], &[k, s], Map::Affine { loc: 0.0, scale: s, extra: 2.0 }, &strm, t, profile);
                        }
                    }
                });
                fam_run!("weibull", |t: &mut Tally| {
                    for &k in &[0.5, 1.0, 3.0] {
                        for &(_, s) in &ls {
                            pair("weibull", &[1.0, k], &[s, k], aff(0.0, s), &strm, t, profile);
                        }
                    }
                });
                fam_run!("pareto", |t: &mut Tally| {
                    for &k in &[0.5, 1.0, 3.0] {
                        for &(_, s) in &ls {
                            pair("pareto", &[1.0, k], &[s, k], aff(0.0, s), &strm, t, profile);
                        }
                    }
                });
                // powers of two from 2^-60 to 2^40: tiny supports must behave like any other (no absolute thresholds)
                let pows: Vec<f64> = [1i32, -1, 10, -12, 20, -20, -24, -30, -53, -60, 40].iter().map(|e| 2f64.powi(*e)).collect();
                fam_run!("inverse_gaussian", |t: &mut Tally| {
                    for &(m, l) in &[(1.0, 1.0), (1.5, 0.25), (0.125, 3.0), (3.0, 40.0)] {
                        for &c in &pows {
                            pair("inverse_gaussian", &[m, l], &[m * c, l * c], Map::Pow2(c), &strm, t, profile);
                        }
                    }
                });
                fam_run!("triangular", |t: &mut Tally| {
                    for &(a, b, c) in &[(0.0, 1.0, 0.5), (0.25, 0.75, 0.375), (-1.0, 1.0, 0.0), (0.0, 1.0, 0.0), (0.0, 1.0, 1.0)] {
                        for &p in &pows {
                            pair("triangular", &[a, b, c], &[a * p, b * p, c * p], Map::Pow2(p), &strm, t, profile);
                        }
                        for &s in &[1.0, -2.0, 16.0, 0.5] {
                            pair("triangular", &[a, b, c], &[a + s, b + s, c + s], Map::Shift(s), &strm, t, profile);
                        }
                    }
                });
                fam_run!("pert", |t: &mut Tally| {
                    for &(a, b, c, sh) in &[(0.0, 1.0, 0.5, 4.0), (0.25, 0.75, 0.375, 4.0), (-1.0, 1.0, 0.0, 2.0), (0.0, 1.0, 0.25, 0.5), (0.0, 1.0, 1.0, 4.0)] {
                        for &p in &pows {
                            pair("pert", &[a, b, c, sh], &[a * p, b * p, c * p, sh], Map::Pow2(p), &strm, t, profile);
                        }
                        for &s in &[1.0, -2.0, 16.0, 0.5] {
                            pair("pert", &[a, b, c, sh], &[a + s, b + s, c + s, sh], Map::Shift(s), &strm, t, profile);
                        }
                    }
                });
                fam_run!("pert_mean", |t: &mut Tally| {
                    // constructed through with_mean (params: min, max, mean, shape): the mean is mapped with the support
                    for &(a, b, m, sh) in &[(0.0, 1.0, 0.375, 2.0), (0.0, 1.0, 0.5, 4.0), (0.25, 0.75, 0.5, 8.0), (-1.0, 1.0, 0.125, 1.0)] {
                        for &p in &pows {
                            pair("pert_mean", &[a, b, m, sh], &[a * p, b * p, m * p, sh], Map::Pow2(p), &strm, t, profile);
                        }
                        for &s in &[1.0, -2.0, 16.0, 0.125] {
                            pair("pert_mean", &[a, b, m, sh], &[a + s, b + s, m + s, sh], Map::Shift(s), &strm, t, profile);
                        }
                    }
                });
                // general (non power-of-two) maps of the support, mode / mean at min, inside and at max, shapes that are
                // not powers of two; maps chosen so that the mapped parameters carry at most one rounding each
                let gmaps: [(f64, f64); 10] = [(0.0, 3.0), (0.0, 7.0), (0.0, 13.0 / 7.0), (0.0, 1.0 / 3.0), (0.0, 0.1), (0.0, 1e-5 / 3.0), (0.0, 1e7 / 7.0), (1.0, 3.0), (-2.0, 1.5), (0.5, 0.75)];
                let mut gstat = (0u64, 0u64, 0f64);
                fam_run!("triangular_general", |t: &mut Tally| {
                    for &(a, b, c) in &[(0.0, 1.0, 0.5), (0.0, 1.0, 0.0), (0.0, 1.0, 1.0), (0.0, 1.0, 0.125), (0.25, 0.75, 0.375), (-1.0, 1.0, 0.5)] {
                        for &(l, s) in &gmaps {
                            pair_general("triangular", &[a, b, c], l, s, &strm, t, &mut gstat, profile);
                        }
                    }
                });
                fam_run!("pert_general", |t: &mut Tally| {
                    for &sh in &[4.0, 3.0, 7.0, 0.5, 3.3, 6.3, 2.7] {
                        for &(a, b, c) in &[(0.0, 1.0, 0.5), (0.0, 1.0, 0.0), (0.0, 1.0, 1.0), (0.0, 1.0, 0.125), (0.25, 0.75, 0.375), (-1.0, 1.0, 1.0)] {
                            for &(l, s) in &gmaps {
                                pair_general("pert", &[a, b, c, sh], l, s, &strm, t, &mut gstat, profile);
                            }
                        }
                    }
                });
                fam_run!("pert_mean_general", |t: &mut Tally| {
                    for &sh in &[4.0, 3.0, 1.0, 6.3] {
                        // (a symmetric base is left out: with v == w exactly, one rounding in the recovered mode swaps the roles of
                        // the two Beta parameters and mirrors every sample — the same law, not the same stream image)
                        for &(a, b, m) in &[(0.0, 1.0, 0.375), (0.0, 1.0, 0.625), (0.25, 0.75, 0.4375), (-1.0, 1.0, 0.125)] {
                            for &(l, s) in &gmaps {
                                pair_general("pert_mean", &[a, b, m, sh], l, s, &strm, t, &mut gstat, profile);
                            }
                        }
                    }
                });
                emit(&json!({"ev": "c07_general", "ty": $tyname, "pairs": gstat.0, "isolated_flips": gstat.1, "max_error_over_bound": gstat.2, "profile": profile}));
                // LogNormal: affine in log space == from_zscore of the standard normal drawn from the clone
                fam_run!("log_normal", |t: &mut Tally| {
                    // both signs of sigma (a negative std_dev is documented as allowed and must act as such)
                    let both: Vec<(f64, f64)> = ls.iter().flat_map(|&(l, s)| [(l, s), (l, -s)]).collect();
                    for &(l, s) in &both {
                        let lim = if IS32 { 80.0 } else { 700.0 };
                        if l.abs() + 9.0 * s.abs() > lim {
                            continue;
                        }
                        let d = LogNormal::<F>::new(l as F, s as F).unwrap();
                        let nd = Normal::<F>::new(l as F, s as F).unwrap();
                        for &(seed, pos, word) in &strm {
                            let mut r0 = Mon::new(Scripted::new(seed, pos, word));
                            let mut r1 = Mon::new(Scripted::new(seed, pos, word));
                            let z: F = StandardNormal.sample(&mut r0);
                            let x: F = d.sample(&mut r1);
                            let n: F = nd.from_zscore(z);
                            t.pairs += 1;
                            tick();
                            let want = d.from_zscore(z);
                            let own = Float::exp((l as F) + (s as F) * z);
                            if x.to_bits() != want.to_bits() || want.to_bits() != own.to_bits() || n.to_bits() != ((l as F) + (s as F) * z).to_bits() || r0.count != r1.count {
                                t.nviol += 1;
                                if t.nviol <= 3 {
                                    emit(&json!({"ev": "viol", "fam": "log_normal", "ty": $tyname, "kind": "from_zscore", "p1": [l, s], "stream": {"seed": seed, "pos": pos, "word": hex64(word)},
                                        "msg": format!("sample {x:e}, from_zscore {want:e}, exp(mu + sigma z) {own:e}, z = {z:e}"), "profile": profile}));
                                }
                            }
                        }
                    }
                });
                // from_zscore over the float lattice and random z
                fam_run!("from_zscore", |t: &mut Tally| {
                    let mut zs: Vec<F> = vec![0.0, -0.0, 1.0, -1.0, F::MIN_POSITIVE, -F::MIN_POSITIVE, F::from_bits(1), F::MAX, -F::MAX, F::INFINITY, F::NEG_INFINITY, F::NAN, 1e-10, 37.5];
                    let mut g = Xo::new(mix(&[vseed, 0x25]));
                    for _ in 0..20_000 {
                        zs.push(((g.unit() * 2.0 - 1.0) * 40.0) as F);
                        zs.push(F::from_bits(g.next() as _));
                    }
                    for &(l, s) in ls.iter().chain([(f64::NAN, 1.0), (0.0, 0.0), (-0.0, -0.0)].iter()) {
                        let nd = match Normal::<F>::new(l as F, s as F) {
                            Ok(d) => d,
                            Err(_) => continue,
                        };
                        let ld = LogNormal::<F>::new(l as F, s as F).unwrap();
                        for &z in &zs {
                            t.pairs += 2;
                            let a = nd.from_zscore(z);
                            let b = (l as F) + (s as F) * z;
                            let c = ld.from_zscore(z);
                            let d = Float::exp(b);
                            let same = |x: F, y: F| x.to_bits() == y.to_bits() || (x.is_nan() && y.is_nan());
                            if !same(a, b) || !same(c, d) {
                                t.nviol += 1;
                                if t.nviol <= 3 {
                                    emit(&json!({"ev": "viol", "fam": "from_zscore", "ty": $tyname, "kind": "from_zscore", "p1": [l, s], "msg": format!("z = {z:e}: Normal {a:e} vs {b:e}; LogNormal {c:e} vs {d:e}"), "profile": profile}));
                                }
                            }
                        }
                    }
                    tick();
                });
                for t in tallies {
                    emit(&json!({"ev": "c07", "fam": t.fam, "ty": t.ty, "pairs": t.pairs, "skipped_overflow_or_subnormal": t.skipped, "viol": t.nviol, "max_error_over_bound": t.maxrel, "profile": profile}));
                }
                flush();
            }
        }
    };
}
affine_mod!(p32, m32, f32, "f32");
affine_mod!(p64, m64, f64, "f64");

pub fn run(job: &Value) {
    let profile = job["profile"].as_str().unwrap_or("release").to_string();
    let vseed = job["verif_seed"].as_u64().unwrap_or(0);
    let n_random = job["n_random"].as_u64().unwrap_or(100);
    let positions = job["positions"].as_u64().unwrap_or(2);
    let n_maps = job["n_maps"].as_u64().unwrap_or(10) as usize;
    BUDGET_MS.store(20_000, std::sync::atomic::Ordering::Relaxed);
    match job["ty"].as_str().unwrap_or("f64") {
        "f32" => p32::run(vseed, n_random, positions, n_maps, &profile),
        _ => p64::run(vseed, n_random, positions, n_maps, &profile),
    }
    emit(&json!({"ev": "done"}));
    flush();
}
