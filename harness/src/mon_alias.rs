//! C08 monitor: alias-table algebra at the hook, weights() round trip, sampling vs the table law.
use crate::common::*;
use crate::rng::*;
use rand_distr::Distribution;
use rand_distr::weighted::WeightedAliasIndex;
use serde_json::{Value, json};

struct Acc {
    built: u64,
    rejected: std::collections::BTreeMap<String, u64>,
    table_checks: u64,
    weights_checks: u64,
    nviol: u64,
    max_len: usize,
}

macro_rules! alias_mod {
    ($m:ident, $W:ty, $is_float:expr, $eps:expr) => {
        pub mod $m {
            use super::*;
            type W = $W;
            pub const NAME: &str = stringify!($W);
            const IS_FLOAT: bool = $is_float;

            fn viol(acc: &mut Acc, kind: &str, ws: &[W], msg: String, profile: &str) {
                acc.nviol += 1;
                if acc.nviol <= 4 {
                    let shown: Vec<String> = ws.iter().take(40).map(|w| format!("{w:?}")).collect();
                    emit(&json!({"ev": "viol", "wt": NAME, "kind": kind, "weights": shown, "len": ws.len(), "msg": msg, "profile": profile}));
                }
            }

            /// Build and check one vector. Returns the table law (probabilities) if built.
            pub fn check(ws: &[W], acc: &mut Acc, profile: &str) -> Option<(WeightedAliasIndex<W>, Vec<f64>)> {
                tick();
                let n = ws.len();
                // documented outcome class of new(): InvalidInput (empty), InvalidWeight (negative, NaN, > MAX/len with
                // integer division, 0 when len does not fit W), InsufficientNonZero (all zero), otherwise Ok
                let zero: W = Default::default();
                #[allow(unused_comparisons)]
                let expected: Vec<&str> = {
                    let mut e = vec![];
                    if n == 0 {
                        e.push("InvalidInput");
                    }
                    let max_w: W = if n == 0 {
                        <$W>::MAX
                    } else if IS_FLOAT {
                        <$W>::MAX / (n as W)
                    } else {
                        let nn = n as W;
                        if nn > zero && (nn as u128) == n as u128 { <$W>::MAX / nn } else { zero }
                    };
                    let bad = |w: &W| *w != *w || *w < zero || *w > max_w;
                    if ws.iter().any(bad) {
                        e.push("InvalidWeight");
                    }
                    if n > 0 && !ws.iter().any(|w| *w != *w || *w < zero) && ws.iter().all(|w| *w == zero) {
                        e.push("InsufficientNonZero");
                    }
                    e
                };
                let d = match guarded(|| WeightedAliasIndex::new(ws.to_vec())) {
                    Caught::Ok(Ok(d)) => {
                        if !expected.is_empty() {
                            viol(acc, "new_accepts_documented_error", ws, format!("new() returned Ok, documented: {}", expected.join("|")), profile);
                        }
                        d
                    }
                    Caught::Ok(Err(e)) => {
                        let name = format!("{e:?}");
                        *acc.rejected.entry(name.clone()).or_insert(0) += 1;
                        if !expected.iter().any(|x| *x == name) {
                            viol(acc, "new_wrong_error_class", ws, format!("new() returned {name}, documented: {}", if expected.is_empty() { "Ok".to_string() } else { expected.join("|") }), profile);
                        }
                        return None;
                    }
                    Caught::Panic(m) => {
                        viol(acc, "new_panic", ws, m, profile);
                        return None;
                    }
                    _ => unreachable!(),
                };
                acc.built += 1;
                acc.max_len = acc.max_len.max(n);
                let (aliases, odds, s) = d.verif_table();
                if aliases.len() != n || odds.len() != n {
                    viol(acc, "table_shape", ws, format!("table lengths {} {} != {n}", aliases.len(), odds.len()), profile);
                    return None;
                }
                acc.table_checks += 1;
                let mut law = vec![0.0f64; n];
                if !IS_FLOAT {
                    // exact integer algebra in u128 (all quantities are non-negative and <= W::MAX)
                    let su = s as u128;
                    let sum_in: Option<u128> = ws.iter().try_fold(0u128, |a, w| a.checked_add(*w as u128));
                    if sum_in != Some(su) {
                        viol(acc, "table_sum", ws, format!("weight_sum {s:?} != sum of inputs {sum_in:?}"), profile);
                        return None;
                    }
                    let mut acc_i: Vec<u128> = vec![0; n];
                    for j in 0..n {
                        let o = odds[j] as u128;
                        if (odds[j] as i128) < 0 && !IS_FLOAT && <$W>::MIN != (0 as $W) {
                            viol(acc, "table_odds_range", ws, format!("odds[{j}] = {:?} negative", odds[j]), profile);
                            return None;
                        }
                        if o > su {
                            viol(acc, "table_odds_range", ws, format!("odds[{j}] = {:?} > S = {s:?}", odds[j]), profile);
                            return None;
                        }
                        acc_i[j] = match acc_i[j].checked_add(o) {
                            Some(x) => x,
                            None => {
                                viol(acc, "table_overflow", ws, "mass accumulation overflowed u128".into(), profile);
                                return None;
                            }
                        };
                        if o < su {
                            let a = aliases[j] as usize;
                            if a >= n {
                                viol(acc, "table_alias_range", ws, format!("alias[{j}] = {a} >= n = {n} while odds[{j}] < S"), profile);
                                return None;
                            }
                            acc_i[a] = match acc_i[a].checked_add(su - o) {
                                Some(x) => x,
                                None => {
                                    viol(acc, "table_overflow", ws, "mass accumulation overflowed u128".into(), profile);
                                    return None;
                                }
                            };
                        }
                    }
                    for i in 0..n {
                        let want = (n as u128).checked_mul(ws[i] as u128);
                        if want != Some(acc_i[i]) {
                            viol(acc, "table_mass", ws, format!("index {i}: table mass {} != n*w = {:?} (n={n}, w={:?}, S={s:?})", acc_i[i], want, ws[i]), profile);
                            return None;
                        }
                        law[i] = acc_i[i] as f64 / (n as f64 * su as f64);
                    }
                    acc.weights_checks += 1;
                    match guarded(|| d.weights()) {
                        Caught::Ok(back) => {
                            if back.as_slice() != ws {
                                viol(acc, "weights_roundtrip", ws, format!("weights() = {:?}", back.iter().take(20).collect::<Vec<_>>()), profile);
                            }
                        }
                        Caught::Panic(m) => viol(acc, "weights_panic", ws, m, profile),
                        _ => unreachable!(),
                    }
                } else {
                    let sf = s as f64;
                    let nf = n as f64;
                    let u: f64 = $eps;
                    let tol = 8.0 * (nf + 4.0) * u * sf;
                    let mut mass = vec![0.0f64; n];
                    for j in 0..n {
                        let o = odds[j] as f64;
                        if !(o >= 0.0 && o <= sf) {
                            viol(acc, "table_odds_range", ws, format!("odds[{j}] = {o:e} outside [0, S = {sf:e}]"), profile);
                            return None;
                        }
                        mass[j] += o;
                        if o < sf {
                            let a = aliases[j] as usize;
                            if a >= n {
                                viol(acc, "table_alias_range", ws, format!("alias[{j}] = {a} >= n while odds < S"), profile);
                                return None;
                            }
                            mass[a] += sf - o;
                        }
                    }
                    for i in 0..n {
                        let want = nf * ws[i] as f64;
                        if (mass[i] - want).abs() > tol * nf {
                            viol(acc, "table_mass", ws, format!("index {i}: table mass {:e} vs n*w = {want:e} (tol {:e})", mass[i], tol * nf), profile);
                            return None;
                        }
                        law[i] = (mass[i] / sf) / nf;
                    }
                    acc.weights_checks += 1;
                    match guarded(|| d.weights()) {
                        Caught::Ok(back) => {
                            for i in 0..n {
                                if ((back[i] as f64) - (ws[i] as f64)).abs() > tol {
                                    viol(acc, "weights_roundtrip", ws, format!("weights()[{i}] = {:e} vs {:e} (tol {tol:e})", back[i], ws[i]), profile);
                                    break;
                                }
                            }
                        }
                        Caught::Panic(m) => viol(acc, "weights_panic", ws, m, profile),
                        _ => unreachable!(),
                    }
                }
                Some((d, law))
            }

            pub fn exhaustive(maxlen: usize, profile: &str) -> Value {
                let mut acc = Acc { built: 0, rejected: Default::default(), table_checks: 0, weights_checks: 0, nviol: 0, max_len: 0 };
                let mut total = 0u64;
                for len in 1..=maxlen {
                    let cap: W = if IS_FLOAT { (<$W>::MAX as f64 / len as f64) as W } else { ((<$W>::MAX as u128) / len as u128) as W };
                    let alpha: Vec<W> = if IS_FLOAT {
                        // envelope E: finite totals <= MAX/4 for float weights; the last entry (> MAX/len) must be rejected
                        vec![0 as W, 1 as W, 2 as W, 3 as W, (cap as f64 * 0.24999) as W, (cap as f64 * 0.25) as W, (cap as f64 * 1.000001) as W]
                    } else {
                        let c = cap as u128;
                        let mut a: Vec<u128> = vec![0, 1, 2, 3, c.saturating_sub(1), c, c.saturating_add(1).min(<$W>::MAX as u128)];
                        a.sort();
                        a.dedup();
                        a.into_iter().map(|x| x as W).collect()
                    };
                    let k = alpha.len();
                    let mut idx = vec![0usize; len];
                    loop {
                        let ws: Vec<W> = idx.iter().map(|&i| alpha[i]).collect();
                        total += 1;
                        check(&ws, &mut acc, profile);
                        // next
                        let mut p = 0;
                        loop {
                            if p == len {
                                break;
                            }
                            idx[p] += 1;
                            if idx[p] < k {
                                break;
                            }
                            idx[p] = 0;
                            p += 1;
                        }
                        if p == len {
                            break;
                        }
                    }
                }
                // invalid-weight injection: every vector of length <= 4 over the alphabet above with one entry replaced, at
                // every position, by each weight the documentation rejects (negative, NaN, infinite, MIN)
                let mut injected = 0u64;
                {
                    let invalid: Vec<W> = if IS_FLOAT {
                        vec![f64::NAN as W, (-f64::NAN) as W, f64::INFINITY as W, f64::NEG_INFINITY as W, (-1i8) as W, (-($eps as f64) * 1e-30) as W, <$W>::MIN]
                    } else if (<$W>::MIN as i128) < 0 {
                        vec![(-1i8) as W, <$W>::MIN, (<$W>::MIN as i128 / 2) as W]
                    } else {
                        vec![]
                    };
                    for len in 1..=maxlen.min(4) {
                        if invalid.is_empty() {
                            break;
                        }
                        let cap: W = if IS_FLOAT { (<$W>::MAX as f64 / len as f64) as W } else { ((<$W>::MAX as u128) / len as u128) as W };
                        let alpha: Vec<W> = if IS_FLOAT { vec![0 as W, 1 as W, 3 as W, (cap as f64 * 0.25) as W] } else { vec![0 as W, 1 as W, 3 as W, cap] };
                        let k = alpha.len();
                        for code in 0..k.pow(len as u32) {
                            let base: Vec<W> = (0..len).map(|p| alpha[(code / k.pow(p as u32)) % k]).collect();
                            for pos in 0..len {
                                for bad in &invalid {
                                    let mut ws = base.clone();
                                    ws[pos] = *bad;
                                    total += 1;
                                    injected += 1;
                                    check(&ws, &mut acc, profile);
                                }
                            }
                        }
                    }
                }
                json!({"ev": "alias_exhaustive", "wt": NAME, "profile": profile, "maxlen": maxlen, "vectors": total, "invalid_injected": injected, "built": acc.built, "rejected": acc.rejected,
                       "table_checks": acc.table_checks, "weights_checks": acc.weights_checks, "violations": acc.nviol})
            }

            fn random_vector(rng: &mut Xo, len: usize) -> Vec<W> {
                let cap = if IS_FLOAT { <$W>::MAX as f64 / 4.0 / len as f64 } else { ((<$W>::MAX as u128) / len as u128) as f64 };
                let kind = rng.below(7);
                let mut v: Vec<W> = Vec::with_capacity(len);
                for i in 0..len {
                    let x: f64 = match kind {
                        0 => cap.min(1000.0) * rng.unit(),                                  // ordinary
                        1 => if i == 0 { cap * 0.99 } else { rng.unit() * 3.0 },            // one dominant
                        2 => cap.min(7.0),                                                  // all equal
                        3 => if i == len / 2 { cap.min(5.0) } else { 0.0 },                 // single non-zero
                        4 => cap.min(1e6) * 0.5f64.powi(i as i32 % 60),                     // geometric decay
                        5 => cap * (0.9 + 0.0999 * rng.unit()),                             // near MAX/len
                        _ => if IS_FLOAT { f64::min([1e-30f64, 1e30, 1e-300, 1.0, 5e-324][rng.below(5) as usize], cap) * rng.unit() } else { (rng.below(4)) as f64 },
                    };
                    v.push(x as W);
                }
                v
            }

            pub fn random(seed: u64, count: usize, maxlen: usize, n_draws: u64, sample_every: usize, profile: &str) -> Value {
                let mut acc = Acc { built: 0, rejected: Default::default(), table_checks: 0, weights_checks: 0, nviol: 0, max_len: 0 };
                let mut rng = Xo::new(mix(&[seed, 0xC08]));
                let lat = lattice();
                let mut adv_execs = 0u64;
                let special = [255usize, 256, 257, 127, 128, 129];
                // small explicit vectors whose weight sums are tiny (a bias of 1 / (sum + 1) in the inner uniform draw
                // is largest there): always sampled
                let small: Vec<Vec<f64>> = vec![vec![1.0, 3.0], vec![1.0, 1.0], vec![2.0, 1.0, 1.0], vec![1.0, 0.0, 2.0], vec![1.0], vec![3.0, 1.0, 0.0, 1.0, 2.0], vec![1.0; 7], vec![5.0, 1.0]];
                let n_small = small.len();
                for c in 0..(count + n_small) {
                    let ws: Vec<W> = if c < n_small {
                        small[c].iter().map(|x| *x as W).collect()
                    } else {
                        let c = c - n_small;
                        let len = if c < special.len() { special[c] } else if rng.below(4) == 0 { 1 + rng.below(maxlen as u64) as usize } else { 1 + rng.below(40) as usize };
                        random_vector(&mut rng, len)
                    };
                    let len = ws.len();
                    let Some((d, law)) = check(&ws, &mut acc, profile) else { continue };
                    if c >= n_small && (c - n_small) % sample_every != 0 {
                        continue;
                    }
                    // adversarial streams: index < n and non-zero weight
                    let aseed = rng.next();
                    'adv: for pos in 0..3u64 {
                        for (class, w) in lat.iter() {
                            let mut r = Mon::new(Scripted::new(aseed, pos, *w)).budget(100_000);
                            for call in 0..4 {
                                let res = guarded(|| d.sample(&mut r));
                                adv_execs += 1;
                                let bad = match res {
                                    Caught::Ok(i) => if i >= len { Some(format!("index {i} >= len {len}")) } else if ws[i] == (0 as W) { Some(format!("index {i} has zero weight")) } else { None },
                                    Caught::Panic(m) => Some(format!("panic: {m}")),
                                    Caught::Budget(_) => Some("word budget exceeded".into()),
                                    _ => unreachable!(),
                                };
                                if let Some(m) = bad {
                                    acc.nviol += 1;
                                    emit(&json!({"ev": "viol", "wt": NAME, "kind": if m.starts_with("panic") { "sample_panic" } else { "sample_bad_index" }, "weights": ws.iter().take(40).map(|w| format!("{w:?}")).collect::<Vec<_>>(),
                                        "len": len, "msg": m, "stream": {"seed": aseed, "pos": pos, "word": hex64(*w), "class": class, "call": call}, "profile": profile}));
                                    break 'adv;
                                }
                                if r.inner.idx > pos {
                                    break;
                                }
                            }
                        }
                    }
                    // sampling counts
                    let sseed = rng.next();
                    let mut counts = vec![0u64; len + 1];
                    let r = guarded(|| {
                        let mut fr = Fast(Xo::new(sseed), 0);
                        for _ in 0..n_draws {
                            let i: usize = d.sample(&mut fr);
                            counts[i.min(len)] += 1;
                        }
                        fr.1
                    });
                    match r {
                        Caught::Ok(words) => emit(&json!({"ev": "alias_counts", "wt": NAME, "profile": profile, "len": len, "n": n_draws, "seed": sseed, "law": law, "counts": counts, "words": words,
                            "weights": ws.iter().map(|w| format!("{w:?}")).collect::<Vec<_>>()})),
                        Caught::Panic(m) => {
                            acc.nviol += 1;
                            emit(&json!({"ev": "viol", "wt": NAME, "kind": "sample_panic", "weights": ws.iter().take(40).map(|w| format!("{w:?}")).collect::<Vec<_>>(), "len": len, "msg": m, "profile": profile}));
                        }
                        _ => unreachable!(),
                    }
                }
                // float weights at the per-length maximum MAX/len (accepted by new(), total beyond the envelope of the
                // table / weights() checks): only the sampled frequencies are judged, against the input law
                if IS_FLOAT {
                    for len in [3usize, 5, 9, 25] {
                        let m = (<$W>::MAX as f64 / len as f64) as W;
                        let mut ws: Vec<W> = vec![0 as W; len];
                        ws[0] = m;
                        ws[1] = m;
                        ws[2] = ((m as f64) / 2.0) as W;
                        let d = match guarded(|| WeightedAliasIndex::new(ws.clone())) {
                            Caught::Ok(Ok(d)) => d,
                            _ => continue,
                        };
                        let scale = <$W>::MAX as f64;
                        let tot: f64 = ws.iter().map(|w| *w as f64 / scale).sum();
                        let law: Vec<f64> = ws.iter().map(|w| (*w as f64 / scale) / tot).collect();
                        let sseed = rng.next();
                        let mut counts = vec![0u64; len + 1];
                        let r = guarded(|| {
                            let mut fr = Fast(Xo::new(sseed), 0);
                            for _ in 0..n_draws {
                                let i: usize = d.sample(&mut fr);
                                counts[i.min(len)] += 1;
                            }
                            fr.1
                        });
                        if let Caught::Ok(words) = r {
                            emit(&json!({"ev": "alias_counts", "wt": NAME, "profile": profile, "len": len, "n": n_draws, "seed": sseed, "law": law, "counts": counts, "words": words,
                                "weights": ws.iter().map(|w| format!("{w:?}")).collect::<Vec<_>>(), "near_max": true}));
                        }
                    }
                }
                json!({"ev": "alias_random", "wt": NAME, "profile": profile, "vectors": count, "built": acc.built, "rejected": acc.rejected, "table_checks": acc.table_checks,
                       "weights_checks": acc.weights_checks, "max_len": acc.max_len, "adv_execs": adv_execs, "violations": acc.nviol})
            }

            /// stage-2 recount with ChaCha for explicitly given weights (Debug-formatted strings)
            pub fn recount(ws: &[String], n: u64, seed: u64) -> Value {
                let v: Vec<W> = ws.iter().map(|s| s.parse::<W>().expect("weight")).collect();
                let d = WeightedAliasIndex::new(v.clone()).expect("weights");
                let mut counts = vec![0u64; v.len() + 1];
                let mut fr = Fast(Cha::new(seed), 0);
                for _ in 0..n {
                    let i: usize = d.sample(&mut fr);
                    counts[i.min(v.len())] += 1;
                }
                json!({"ev": "recount", "counts": counts, "n": n})
            }
        }
    };
}
alias_mod!(a_u8, u8, false, 0.0);
alias_mod!(a_i8, i8, false, 0.0);
alias_mod!(a_u16, u16, false, 0.0);
alias_mod!(a_i16, i16, false, 0.0);
alias_mod!(a_u32, u32, false, 0.0);
alias_mod!(a_i32, i32, false, 0.0);
alias_mod!(a_u64, u64, false, 0.0);
alias_mod!(a_i64, i64, false, 0.0);
alias_mod!(a_usize, usize, false, 0.0);
alias_mod!(a_u128, u128, false, 0.0);
alias_mod!(a_i128, i128, false, 0.0);
alias_mod!(a_f32, f32, true, f32::EPSILON as f64);
alias_mod!(a_f64, f64, true, f64::EPSILON);

macro_rules! dispatch {
    ($wt:expr, $f:ident ( $($a:expr),* )) => {
        match $wt {
            "u8" => a_u8::$f($($a),*),
            "i8" => a_i8::$f($($a),*),
            "u16" => a_u16::$f($($a),*),
            "i16" => a_i16::$f($($a),*),
            "u32" => a_u32::$f($($a),*),
            "i32" => a_i32::$f($($a),*),
            "u64" => a_u64::$f($($a),*),
            "i64" => a_i64::$f($($a),*),
            "usize" => a_usize::$f($($a),*),
            "u128" => a_u128::$f($($a),*),
            "i128" => a_i128::$f($($a),*),
            "f32" => a_f32::$f($($a),*),
            "f64" => a_f64::$f($($a),*),
            other => panic!("unknown weight type {other}"),
        }
    };
}

pub fn run(job: &Value) {
    let profile = job["profile"].as_str().unwrap_or("release").to_string();
    let seed = job["seed"].as_u64().unwrap_or(0);
    let wt = job["wt"].as_str().unwrap_or("u8");
    let mode = job["mode"].as_str().unwrap_or("exhaustive");
    crate::common::BUDGET_MS.store(60_000, std::sync::atomic::Ordering::Relaxed);
    set_ctx(json!({"phase": "c08", "wt": wt, "mode": mode, "profile": profile}));
    let v = match mode {
        "exhaustive" => {
            let maxlen = job["maxlen"].as_u64().unwrap_or(5) as usize;
            dispatch!(wt, exhaustive(maxlen, &profile))
        }
        "random" => {
            let count = job["count"].as_u64().unwrap_or(1000) as usize;
            let maxlen = job["maxlen"].as_u64().unwrap_or(10_000) as usize;
            let n = job["n"].as_u64().unwrap_or(1_000_000);
            let every = job["sample_every"].as_u64().unwrap_or(50) as usize;
            dispatch!(wt, random(seed, count, maxlen, n, every, &profile))
        }
        "recount" => {
            let ws: Vec<String> = job["weights"].as_array().unwrap().iter().map(|x| x.as_str().unwrap().to_string()).collect();
            let n = job["n"].as_u64().unwrap();
            dispatch!(wt, recount(&ws, n, seed))
        }
        _ => panic!("mode"),
    };
    emit(&v);
    emit(&json!({"ev": "done"}));
    flush();
}
