//! Statistical law monitor, online part (DESIGN.md §3.1): counts of sample() results in the cells
//! delimited by oracle-supplied thresholds, plus NaN / inf / out-of-support counters.
use crate::common::*;
use crate::fam::*;
use crate::rng::*;
use rand::Rng;
use serde_json::{Value, json};

struct Counts {
    cells: Vec<u64>,
    nan: u64,
    pinf: u64,
    ninf: u64,
    outside: u64,
    min: f64,
    max: f64,
}

fn run_one<R: Rng>(d: &Dist, case: &Case, thr_f: &[f64], thr_u: &[u64], n: u64, rng: &mut R) -> Counts {
    let mut c = Counts { cells: vec![0; thr_f.len().max(thr_u.len()) + 1], nan: 0, pinf: 0, ninf: 0, outside: 0, min: f64::INFINITY, max: f64::NEG_INFINITY };
    let pf = case.pf();
    match d {
        Dist::U(du) => {
            for i in 0..n {
                if i & 0xfffff == 0 {
                    tick();
                }
                let x = du.sample(rng);
                let j = thr_u.partition_point(|t| *t < x);
                c.cells[j] += 1;
                if DU::support(&case.fam, &case.p, x) != Sup::Ok {
                    c.outside += 1;
                }
                let xf = x as f64;
                if xf < c.min {
                    c.min = xf;
                }
                if xf > c.max {
                    c.max = xf;
                }
            }
        }
        _ => {
            for i in 0..n {
                if i & 0xfffff == 0 {
                    tick();
                }
                let x = d.sample_f64(rng);
                if x.is_nan() {
                    c.nan += 1;
                    continue;
                }
                if x == f64::INFINITY {
                    c.pinf += 1;
                } else if x == f64::NEG_INFINITY {
                    c.ninf += 1;
                }
                let j = thr_f.partition_point(|t| *t < x);
                c.cells[j] += 1;
                if x < c.min {
                    c.min = x;
                }
                if x > c.max {
                    c.max = x;
                }
                // support predicate on a thinned sub-stream (it is C03's job; here it guards the law cells)
                if i & 0xff == 0 {
                    let s = match d {
                        Dist::F32(_) => m32::support(&case.fam, &pf, x as f32),
                        _ => m64::support(&case.fam, &pf, x),
                    };
                    if s == Sup::Outside {
                        c.outside += 1;
                    }
                }
            }
        }
    }
    c
}

pub fn run(job: &Value) {
    let cases = job["cases"].as_array().expect("cases");
    let start = job["start"].as_u64().unwrap_or(0) as usize;
    BUDGET_MS.store(30_000, std::sync::atomic::Ordering::Relaxed);
    for (idx, cj) in cases.iter().enumerate() {
        if idx < start {
            continue;
        }
        let case = Case::from_json(cj);
        emit(&json!({"ev": "begin", "case_idx": idx, "id": case.id}));
        flush();
        set_ctx(json!({"case_idx": idx, "case": case.to_json(), "phase": "law"}));
        let n = cj["n"].as_u64().expect("n");
        let seed = cj["seed"].as_u64().expect("seed");
        let generator = cj["gen"].as_u64().unwrap_or(0);
        let thr: Vec<P> = cj["thr"].as_array().expect("thr").iter().map(|t| P::dec(t.as_str().unwrap())).collect();
        let (thr_f, thr_u): (Vec<f64>, Vec<u64>) = if case.ty == Ty::U64 { (vec![], thr.iter().map(|p| p.u()).collect()) } else { (thr.iter().map(|p| p.f()).collect(), vec![]) };
        let d = match guarded(|| Dist::build(&case)) {
            Caught::Ok(Ok(d)) => d,
            Caught::Ok(Err(e)) => {
                emit(&json!({"ev": "ctor_err", "case_idx": idx, "id": case.id, "err": e}));
                continue;
            }
            _ => {
                emit(&json!({"ev": "ctor_err", "case_idx": idx, "id": case.id, "err": "panic"}));
                continue;
            }
        };
        tick();
        let mut words = 0u64;
        let r = guarded(|| {
            if generator == 0 {
                let mut rng = Fast(Xo::new(seed), 0);
                let c = run_one(&d, &case, &thr_f, &thr_u, n, &mut rng);
                words = rng.1;
                c
            } else {
                let mut rng = Fast(Cha::new(seed), 0);
                let c = run_one(&d, &case, &thr_f, &thr_u, n, &mut rng);
                words = rng.1;
                c
            }
        });
        match r {
            Caught::Ok(c) => emit(&json!({"ev": "law", "case_idx": idx, "id": case.id, "key": cj["key"], "n": n, "seed": seed, "gen": generator, "cells": c.cells, "nan": c.nan, "pinf": c.pinf, "ninf": c.ninf,
                "outside": c.outside, "min": format!("{:e}", c.min), "max": format!("{:e}", c.max), "words": words, "sig": signature(&d.debug())})),
            Caught::Panic(m) => emit(&json!({"ev": "law_panic", "case_idx": idx, "id": case.id, "key": cj["key"], "msg": m, "seed": seed, "gen": generator})),
            _ => {}
        }
        flush();
    }
    emit(&json!({"ev": "done"}));
    flush();
}

/// `StandardNormal` / `Exp1`: sample::<f32> must equal (sample::<f64>) as f32 on the same stream
pub fn pair32(job: &Value) {
    use rand_distr::{Distribution, Exp1, StandardNormal};
    let n = job["n"].as_u64().unwrap_or(1_000_000);
    let seed = job["seed"].as_u64().unwrap_or(0);
    let mut bad = 0u64;
    let mut pairs = 0u64;
    let lat = lattice();
    let mut check = |r1: &mut Mon<Scripted>, r2: &mut Mon<Scripted>, which: u8| {
        let (a, b): (f32, f64) = if which == 0 { (StandardNormal.sample(r1), StandardNormal.sample(r2)) } else { (Exp1.sample(r1), Exp1.sample(r2)) };
        pairs += 1;
        if a.to_bits() != (b as f32).to_bits() || r1.count != r2.count {
            bad += 1;
            if bad <= 3 {
                emit(&json!({"ev": "viol", "kind": "f32_is_not_rounded_f64", "which": if which == 0 { "StandardNormal" } else { "Exp1" }, "f32": format!("{a:e}"), "f64": format!("{b:e}"), "words": [r1.count, r2.count]}));
            }
        }
    };
    for which in 0..2u8 {
        let mut r1 = Mon::new(Scripted::plain(seed ^ 5));
        let mut r2 = Mon::new(Scripted::plain(seed ^ 5));
        for i in 0..n {
            if i & 0xffff == 0 {
                tick();
            }
            check(&mut r1, &mut r2, which);
        }
        for pos in 0..4 {
            for (_, w) in &lat {
                let mut r1 = Mon::new(Scripted::new(seed, pos, *w));
                let mut r2 = Mon::new(Scripted::new(seed, pos, *w));
                for _ in 0..5 {
                    check(&mut r1, &mut r2, which);
                }
            }
        }
    }
    emit(&json!({"ev": "pair32", "pairs": pairs, "bad": bad}));
    flush();
}

/// ziggurat tables through the hook (C06)
pub fn zigdump() {
    let (nr, nx, nf) = rand_distr::verif_hooks::zig_norm();
    let (er, ex, ef) = rand_distr::verif_hooks::zig_exp();
    let h = |v: &[f64; 257]| v.iter().map(|x| hex64(x.to_bits())).collect::<Vec<_>>();
    println!("{}", json!({"norm_r": hex64(nr.to_bits()), "norm_x": h(nx), "norm_f": h(nf), "exp_r": hex64(er.to_bits()), "exp_x": h(ex), "exp_f": h(ef)}));
}

/// C06: what the ziggurat does with a chosen first word (layer index in the low 8 bits, u in bits 12..63)
pub fn zigprobe(job: &Value) {
    use rand_distr::{Distribution, Exp1, StandardNormal};
    let seed = job["seed"].as_u64().unwrap_or(0);
    let us: Vec<u64> = vec![0, 1, 2, (1 << 51) - 1, 1 << 51, (1 << 51) + 1, (1 << 52) - 2, (1 << 52) - 1, 0x5_5555_5555_5555, 0xA_AAAA_AAAA_AAAA];
    let mut rows = vec![];
    for layer in 0u64..256 {
        for (ui, &u) in us.iter().enumerate() {
            for fill in [0u64, 0xf00] {
                let w = (u << 12) | fill | layer;
                let mut r1 = Mon::new(Scripted::new(seed, 0, w));
                let x: f64 = StandardNormal.sample(&mut r1);
                let mut r2 = Mon::new(Scripted::new(seed, 0, w));
                let e: f64 = Exp1.sample(&mut r2);
                rows.push(json!([layer, ui, hex64(u), fill, hex64(x.to_bits()), r1.count, hex64(e.to_bits()), r2.count]));
            }
        }
    }
    println!("{}", json!({"ev": "zigprobe", "rows": rows}));
}
