//! A `Subject` is anything `sample()`-able whose result can be judged by a support predicate:
//! the scalar families plus unit geometry, Dirichlet and the two weighted indices.
use crate::common::*;
use crate::fam::*;
use crate::rng::*;
use rand_distr::multi::{Dirichlet, MultiDistribution};
use rand_distr::weighted::{WeightedAliasIndex, WeightedTreeIndex};
use rand_distr::*;

pub type R = Mon<AnyWords>;

pub fn fnv(h: u64, x: u64) -> u64 {
    (h ^ x).wrapping_mul(0x100000001b3)
}

/// Thread check through autoref specialisation on `Sync`: a type that stops being `Sync` (interior
/// mutability) must not break the harness build; the check then reports `None`.
pub struct SyncProbe<'a, T>(pub &'a T);
pub trait ViaSync {
    fn threaded(&self, seeds: &[u64], n: usize) -> Option<Vec<Vec<u64>>>;
}
impl<T: Subject + Sync> ViaSync for SyncProbe<'_, T> {
    fn threaded(&self, seeds: &[u64], n: usize) -> Option<Vec<Vec<u64>>> {
        let subj: &T = self.0;
        Some(std::thread::scope(|sc| {
            let hs: Vec<_> = seeds
                .iter()
                .map(|&sd| {
                    sc.spawn(move || {
                        let mut r = Mon::new(AnyWords::S(Scripted::plain(sd)));
                        std::panic::catch_unwind(std::panic::AssertUnwindSafe(|| (0..n).map(|_| subj.call_hash(&mut r)).collect::<Vec<u64>>())).unwrap_or_default()
                    })
                })
                .collect();
            hs.into_iter().map(|h| h.join().unwrap_or_default()).collect()
        }))
    }
}
pub trait ViaNoSync {
    fn threaded(&self, seeds: &[u64], n: usize) -> Option<Vec<Vec<u64>>>;
}
impl<T> ViaNoSync for &SyncProbe<'_, T> {
    fn threaded(&self, _seeds: &[u64], _n: usize) -> Option<Vec<Vec<u64>>> {
        None
    }
}
macro_rules! threads_impl {
    () => {
        fn threaded_hashes(&self, seeds: &[u64], n: usize) -> Option<Vec<Vec<u64>>> {
            #[allow(unused_imports)]
            use crate::subject::{ViaNoSync, ViaSync};
            (&SyncProbe(self)).threaded(seeds, n)
        }
    };
}

pub trait Subject {
    /// `n` sample hashes per seed, drawn by one thread per seed sharing `&self`; `None` if the type is not `Sync`
    fn threaded_hashes(&self, seeds: &[u64], n: usize) -> Option<Vec<Vec<u64>>>;
    fn call(&self, rng: &mut R) -> (Sup, Val);
    /// hash of every bit of the returned sample (all components for vector-valued samplers)
    fn call_hash(&self, rng: &mut R) -> u64 {
        fnv(0xcbf29ce484222325, self.call(rng).1.bits())
    }
    fn clone_box(&self) -> Box<dyn Subject>;
    /// `PartialEq` against another subject of the same concrete type (None if the type has no PartialEq)
    fn eq_dyn(&self, _other: &dyn Subject) -> Option<bool> {
        None
    }
    fn as_any(&self) -> &dyn std::any::Any;
    /// hashes of `n` samples drawn through `sample_iter`
    fn iter_hashes(&self, _rng: &mut R, _n: usize) -> Option<Vec<u64>> {
        None
    }
    fn debug(&self) -> String;
    /// the value's real `Debug` output (the summary `debug()` is used for logs and signatures)
    fn debug_full(&self) -> String {
        self.debug()
    }
    /// the same value built from equal parameters through other input representations the API accepts
    /// (iterators with inexact size hints, chained halves, ...)
    fn alt_builds(&self) -> Vec<(&'static str, Box<dyn Subject>)> {
        vec![]
    }
    /// `dst.clone_from(self)` for destinations that held a longer, a shorter and an empty value before
    fn clone_from_variants(&self) -> Vec<(&'static str, Box<dyn Subject>)> {
        vec![]
    }
    fn is_f32(&self) -> bool;
    /// number of scalar components per sample (for the C05 mean-words bound)
    fn width(&self) -> usize {
        1
    }
}

#[derive(Clone)]
pub struct Scalar {
    pub case: Case,
    pub d: Dist,
}
impl Subject for Scalar {
    threads_impl!();
    fn clone_box(&self) -> Box<dyn Subject> {
        Box::new(self.clone())
    }
    fn eq_dyn(&self, other: &dyn Subject) -> Option<bool> {
        other.as_any().downcast_ref::<Scalar>().map(|o| o.d == self.d)
    }
    fn as_any(&self) -> &dyn std::any::Any {
        self
    }
    fn iter_hashes(&self, rng: &mut R, n: usize) -> Option<Vec<u64>> {
        Some(self.d.iter_hashes(rng, n))
    }
    #[inline]
    fn call(&self, rng: &mut R) -> (Sup, Val) {
        let v = self.d.sample(rng);
        (support(&self.case, v), v)
    }
    fn debug(&self) -> String {
        self.d.debug()
    }
    fn is_f32(&self) -> bool {
        self.case.ty == Ty::F32
    }
}

macro_rules! unit_subject {
    ($name:ident, $D:ident, $n:expr, $F:ty, $is32:expr, $check:expr) => {
        #[derive(Clone)]
        struct $name;
        impl Subject for $name {
            threads_impl!();
            fn clone_box(&self) -> Box<dyn Subject> {
                Box::new(self.clone())
            }
            fn as_any(&self) -> &dyn std::any::Any {
                self
            }
            fn call_hash(&self, rng: &mut R) -> u64 {
                let x: [$F; $n] = $D.sample(rng);
                x.iter().fold(0xcbf29ce484222325, |h, c| fnv(h, c.to_bits() as u64))
            }
            fn iter_hashes(&self, rng: &mut R, n: usize) -> Option<Vec<u64>> {
                let it = Distribution::<[$F; $n]>::sample_iter($D, rng);
                Some(it.take(n).map(|x: [$F; $n]| x.iter().fold(0xcbf29ce484222325, |h, c| fnv(h, c.to_bits() as u64))).collect())
            }
            fn call(&self, rng: &mut R) -> (Sup, Val) {
                let x: [$F; $n] = $D.sample(rng);
                let mut n2 = 0.0f64;
                for c in x {
                    if !c.is_finite() {
                        return (Sup::NonFinite, Val::F(c as f64));
                    }
                    n2 += (c as f64) * (c as f64);
                }
                let eps = <$F>::EPSILON as f64;
                let f: fn(f64, f64) -> bool = $check;
                if f(n2.sqrt(), eps) { (Sup::Ok, Val::F(n2.sqrt())) } else { (Sup::Outside, Val::F(n2.sqrt())) }
            }
            fn debug(&self) -> String {
                format!("{:?}<{}>", $D, stringify!($F))
            }
            fn is_f32(&self) -> bool {
                $is32
            }
            fn width(&self) -> usize {
                $n
            }
        }
    };
}
// circle / sphere: | |x| - 1 | <= 8u ; disc / ball: |x| <= 1 + 4u
unit_subject!(UCircle32, UnitCircle, 2, f32, true, |n, e| (n - 1.0).abs() <= 8.0 * e);
unit_subject!(UCircle64, UnitCircle, 2, f64, false, |n, e| (n - 1.0).abs() <= 8.0 * e);
unit_subject!(USphere32, UnitSphere, 3, f32, true, |n, e| (n - 1.0).abs() <= 8.0 * e);
unit_subject!(USphere64, UnitSphere, 3, f64, false, |n, e| (n - 1.0).abs() <= 8.0 * e);
unit_subject!(UDisc32, UnitDisc, 2, f32, true, |n, e| n <= 1.0 + 4.0 * e);
unit_subject!(UDisc64, UnitDisc, 2, f64, false, |n, e| n <= 1.0 + 4.0 * e);
unit_subject!(UBall32, UnitBall, 3, f32, true, |n, e| n <= 1.0 + 4.0 * e);
unit_subject!(UBall64, UnitBall, 3, f64, false, |n, e| n <= 1.0 + 4.0 * e);

macro_rules! dirichlet_subject {
    ($name:ident, $F:ty, $is32:expr) => {
        struct $name(Dirichlet<$F>, usize, std::sync::Mutex<Vec<$F>>);
        impl Clone for $name {
            fn clone(&self) -> Self {
                $name(self.0.clone(), self.1, std::sync::Mutex::new(vec![0.25 as $F; self.1]))
            }
        }
        impl Subject for $name {
            threads_impl!();
            fn clone_box(&self) -> Box<dyn Subject> {
                Box::new(self.clone())
            }
            fn as_any(&self) -> &dyn std::any::Any {
                self
            }
            fn eq_dyn(&self, other: &dyn Subject) -> Option<bool> {
                other.as_any().downcast_ref::<$name>().map(|o| o.0 == self.0)
            }
            fn call_hash(&self, rng: &mut R) -> u64 {
                // through sample_to_slice into a REUSED buffer (whatever the previous call left in it): the
                // result must not depend on the buffer's previous contents
                use rand_distr::multi::MultiDistribution;
                match self.2.try_lock() {
                    Ok(mut buf) => {
                        self.0.sample_to_slice(rng, &mut buf);
                        buf.iter().fold(0xcbf29ce484222325, |h, c| fnv(h, c.to_bits() as u64))
                    }
                    Err(_) => {
                        let x: Vec<$F> = self.0.sample(rng);
                        x.iter().fold(0xcbf29ce484222325, |h, c| fnv(h, c.to_bits() as u64))
                    }
                }
            }
            fn iter_hashes(&self, rng: &mut R, n: usize) -> Option<Vec<u64>> {
                let it = (&self.0).sample_iter(rng);
                Some(it.take(n).map(|x: Vec<$F>| x.iter().fold(0xcbf29ce484222325, |h, c| fnv(h, c.to_bits() as u64))).collect())
            }
            fn call(&self, rng: &mut R) -> (Sup, Val) {
                let x: Vec<$F> = self.0.sample(rng);
                if x.len() != self.1 {
                    return (Sup::Outside, Val::U(x.len() as u64));
                }
                let mut sum = 0.0f64;
                for &c in &x {
                    if !c.is_finite() {
                        return (Sup::NonFinite, Val::F(c as f64));
                    }
                    if !(0.0..=1.0).contains(&c) {
                        return (Sup::Outside, Val::F(c as f64));
                    }
                    sum += c as f64;
                }
                let tol = (self.1 as f64 + 4.0) * <$F>::EPSILON as f64;
                if (sum - 1.0).abs() <= tol { (Sup::Ok, Val::F(sum)) } else { (Sup::Outside, Val::F(sum)) }
            }
            fn debug(&self) -> String {
                let d = format!("{:?}", self.0);
                // keep only the representation name: the full rendering is long
                if d.contains("FromBeta") { "Dirichlet{FromBeta}".into() } else { "Dirichlet{FromGamma}".into() }
            }
            fn is_f32(&self) -> bool {
                $is32
            }
            fn width(&self) -> usize {
                self.1
            }
        }
    };
}
dirichlet_subject!(Dir32, f32, true);
dirichlet_subject!(Dir64, f64, false);

macro_rules! weighted_subject {
    ($aname:ident, $tname:ident, $W:ty, $is32:expr, $conv:expr) => {
        #[derive(Clone)]
        struct $aname(WeightedAliasIndex<$W>, Vec<$W>);
        impl Subject for $aname {
            threads_impl!();
            fn clone_box(&self) -> Box<dyn Subject> {
                Box::new(self.clone())
            }
            fn as_any(&self) -> &dyn std::any::Any {
                self
            }
            fn iter_hashes(&self, rng: &mut R, n: usize) -> Option<Vec<u64>> {
                let it = (&self.0).sample_iter(rng);
                Some(it.take(n).map(|i: usize| fnv(0xcbf29ce484222325, i as u64)).collect())
            }
            fn call(&self, rng: &mut R) -> (Sup, Val) {
                let i: usize = self.0.sample(rng);
                let zero: $W = Default::default();
                if i < self.1.len() && self.1[i] != zero { (Sup::Ok, Val::U(i as u64)) } else { (Sup::Outside, Val::U(i as u64)) }
            }
            fn debug(&self) -> String {
                format!("WeightedAliasIndex<{}>[len {}]", stringify!($W), self.1.len())
            }
            fn debug_full(&self) -> String {
                format!("{:?}", self.0)
            }
            fn clone_from_variants(&self) -> Vec<(&'static str, Box<dyn Subject>)> {
                let ws = &self.1;
                let one: $W = 1 as $W;
                let mut out: Vec<(&'static str, Box<dyn Subject>)> = vec![];
                let longer: Vec<$W> = std::iter::repeat(one).take(ws.len() + 5).collect();
                let shorter: Vec<$W> = vec![one];
                for (name, v) in [("destination held a longer value", longer), ("destination held a shorter value", shorter)] {
                    if let Ok(mut d) = WeightedAliasIndex::new(v) {
                        d.clone_from(&self.0);
                        out.push((name, Box::new($aname(d, ws.clone())) as Box<dyn Subject>));
                    }
                }
                out
            }
            fn is_f32(&self) -> bool {
                $is32
            }
        }
        #[derive(Clone)]
        struct $tname(WeightedTreeIndex<$W>, Vec<$W>);
        impl Subject for $tname {
            threads_impl!();
            fn clone_box(&self) -> Box<dyn Subject> {
                Box::new(self.clone())
            }
            fn as_any(&self) -> &dyn std::any::Any {
                self
            }
            fn eq_dyn(&self, other: &dyn Subject) -> Option<bool> {
                other.as_any().downcast_ref::<$tname>().map(|o| o.0 == self.0)
            }
            fn iter_hashes(&self, rng: &mut R, n: usize) -> Option<Vec<u64>> {
                let it = (&self.0).sample_iter(rng);
                Some(it.take(n).map(|i: usize| fnv(0xcbf29ce484222325, i as u64)).collect())
            }
            fn call(&self, rng: &mut R) -> (Sup, Val) {
                let i: usize = self.0.sample(rng);
                let zero: $W = Default::default();
                if i < self.1.len() && self.1[i] != zero { (Sup::Ok, Val::U(i as u64)) } else { (Sup::Outside, Val::U(i as u64)) }
            }
            fn debug(&self) -> String {
                format!("WeightedTreeIndex<{}>[len {}]", stringify!($W), self.1.len())
            }
            fn debug_full(&self) -> String {
                format!("{:?}", self.0)
            }
            fn alt_builds(&self) -> Vec<(&'static str, Box<dyn Subject>)> {
                /// an iterator that under-reports its length (a legal `size_hint`)
                struct Half<I>(I, usize);
                impl<I: Iterator> Iterator for Half<I> {
                    type Item = I::Item;
                    fn next(&mut self) -> Option<I::Item> {
                        self.0.next()
                    }
                    fn size_hint(&self) -> (usize, Option<usize>) {
                        (self.1 / 2, None)
                    }
                }
                let ws = &self.1;
                let mut out: Vec<(&'static str, Box<dyn Subject>)> = vec![];
                let mut push = |name: &'static str, r: Result<WeightedTreeIndex<$W>, rand_distr::weighted::Error>| {
                    if let Ok(d) = r {
                        out.push((name, Box::new($tname(d, ws.clone())) as Box<dyn Subject>));
                    }
                };
                push("filter (lower bound 0)", WeightedTreeIndex::new(ws.iter().copied().filter(|_| true)));
                push("under-reporting size_hint", WeightedTreeIndex::new(Half(ws.iter().copied(), ws.len())));
                let (a, b) = ws.split_at(ws.len() / 3);
                push("chain of two parts", WeightedTreeIndex::new(a.iter().chain(b.iter()).copied()));
                push("slice of references", WeightedTreeIndex::new(ws.iter()));
                out
            }
            fn clone_from_variants(&self) -> Vec<(&'static str, Box<dyn Subject>)> {
                let ws = &self.1;
                let one: $W = 1 as $W;
                let mut out: Vec<(&'static str, Box<dyn Subject>)> = vec![];
                let longer: Vec<$W> = std::iter::repeat(one).take(ws.len() + 5).collect();
                let shorter: Vec<$W> = ws.iter().take(ws.len() / 2).copied().collect();
                for (name, v) in [("destination held a longer value", longer), ("destination held a shorter value", shorter), ("destination was empty", vec![])] {
                    if let Ok(mut d) = WeightedTreeIndex::<$W>::new(v) {
                        d.clone_from(&self.0);
                        out.push((name, Box::new($tname(d, ws.clone())) as Box<dyn Subject>));
                    }
                }
                out
            }
            fn is_f32(&self) -> bool {
                $is32
            }
        }
    };
}
weighted_subject!(AU8, TU8, u8, false, 0);
weighted_subject!(AU16, TU16, u16, false, 0);
weighted_subject!(AU32, TU32, u32, false, 0);
weighted_subject!(AU64, TU64, u64, false, 0);
weighted_subject!(AU128, TU128, u128, false, 0);
weighted_subject!(AUsize, TUsize, usize, false, 0);
weighted_subject!(AI8, TI8, i8, false, 0);
weighted_subject!(AI16, TI16, i16, false, 0);
weighted_subject!(AI32, TI32, i32, false, 0);
weighted_subject!(AI64, TI64, i64, false, 0);
weighted_subject!(AI128, TI128, i128, false, 0);
weighted_subject!(AF32, TF32, f32, true, 0);
weighted_subject!(AF64, TF64, f64, false, 0);

pub fn subject(case: &Case) -> Result<Box<dyn Subject>, String> {
    let fam = case.fam.as_str();
    let is32 = case.ty == Ty::F32;
    macro_rules! unit {
        ($a:ident, $b:ident) => {
            Ok(if is32 { Box::new($a) as Box<dyn Subject> } else { Box::new($b) })
        };
    }
    match fam {
        "unit_circle" => return unit!(UCircle32, UCircle64),
        "unit_sphere" => return unit!(USphere32, USphere64),
        "unit_disc" => return unit!(UDisc32, UDisc64),
        "unit_ball" => return unit!(UBall32, UBall64),
        "dirichlet" => {
            let a = case.pf();
            return if is32 {
                let v: Vec<f32> = a.iter().map(|&x| x as f32).collect();
                Dirichlet::new(&v).map(|d| Box::new(Dir32(d, v.len(), std::sync::Mutex::new(vec![0.25f32; v.len()]))) as Box<dyn Subject>).map_err(|e| format!("{e:?}"))
            } else {
                Dirichlet::new(&a).map(|d| Box::new(Dir64(d, a.len(), std::sync::Mutex::new(vec![0.25f64; a.len()]))) as Box<dyn Subject>).map_err(|e| format!("{e:?}"))
            };
        }
        _ => {}
    }
    if let Some(wt) = fam.strip_prefix("alias:").or_else(|| fam.strip_prefix("tree:")).or_else(|| fam.strip_prefix("treeh:")) {
        let is_alias = fam.starts_with("alias:");
        // "treeh": the tree is driven through a deterministic history that mixes accepted operations with operations
        // that must be rejected (totals beyond MAX); a rejected operation leaves the weights unchanged (rustdoc), so
        // the model only follows the operations that returned Ok
        let with_history = fam.starts_with("treeh:");
        macro_rules! w {
            ($A:ident, $T:ident, $W:ty, $cv:expr) => {{
                let f: fn(P) -> $W = $cv;
                let ws: Vec<$W> = case.p.iter().map(|&p| f(p)).collect();
                if is_alias {
                    WeightedAliasIndex::new(ws.clone()).map(|d| Box::new($A(d, ws)) as Box<dyn Subject>).map_err(|e| format!("{e:?}"))
                } else if with_history {
                    let mut t = WeightedTreeIndex::new(ws.clone()).map_err(|e| format!("{e:?}"))?;
                    let mut m = ws.clone();
                    let zero: $W = Default::default();
                    let mut g = Xo::new(fnv(0xcbf29ce484222325, case.id.len() as u64 ^ case.p.iter().fold(0u64, |a, p| a.rotate_left(7) ^ p.u())));
                    let r = guarded(std::panic::AssertUnwindSafe(|| {
                        for _ in 0..48 {
                            let n = m.len() as u64;
                            let pick = |g: &mut Xo, m: &Vec<$W>| -> $W {
                                match g.below(5) {
                                    0 => <$W>::MAX,
                                    1 => <$W>::MAX / (2 as $W),
                                    2 => zero,
                                    _ => if m.is_empty() { zero } else { m[g.below(m.len() as u64) as usize] },
                                }
                            };
                            match g.below(8) {
                                0 | 1 | 2 | 3 if n > 0 => {
                                    let i = g.below(n) as usize;
                                    let w = pick(&mut g, &m);
                                    if t.update(i, w).is_ok() {
                                        m[i] = w;
                                    }
                                }
                                4 | 5 => {
                                    let w = pick(&mut g, &m);
                                    if m.len() < 64 && t.push(w).is_ok() {
                                        m.push(w);
                                    }
                                }
                                6 if n > 1 => {
                                    if t.pop().is_some() {
                                        m.pop();
                                    }
                                }
                                _ => {}
                            }
                        }
                    }));
                    if !matches!(r, Caught::Ok(())) {
                        // a panic inside the history is C09's business: fall back to the fresh tree
                        return WeightedTreeIndex::new(ws.clone()).map(|d| Box::new($T(d, ws)) as Box<dyn Subject>).map_err(|e| format!("{e:?}"));
                    }
                    let fix = guarded(std::panic::AssertUnwindSafe(|| {
                        if !t.is_valid() {
                            // make it sampleable again through an accepted operation
                            let w = <$W>::MAX / (4 as $W);
                            if m.is_empty() {
                                if t.push(w).is_ok() {
                                    m.push(w);
                                }
                            } else if t.update(0, w).is_ok() {
                                m[0] = w;
                            }
                        }
                        t.is_valid()
                    }));
                    if !matches!(fix, Caught::Ok(true)) {
                        return WeightedTreeIndex::new(ws.clone()).map(|d| Box::new($T(d, ws)) as Box<dyn Subject>).map_err(|e| format!("{e:?}"));
                    }
                    Ok(Box::new($T(t, m)) as Box<dyn Subject>)
                } else {
                    WeightedTreeIndex::new(ws.clone()).map(|d| Box::new($T(d, ws)) as Box<dyn Subject>).map_err(|e| format!("{e:?}"))
                }
            }};
        }
        return match wt {
            "u8" => w!(AU8, TU8, u8, |p| p.u() as u8),
            "u16" => w!(AU16, TU16, u16, |p| p.u() as u16),
            "u32" => w!(AU32, TU32, u32, |p| p.u() as u32),
            "u64" => w!(AU64, TU64, u64, |p| p.u()),
            "u128" => w!(AU128, TU128, u128, |p| (p.u() as u128) << 60),
            "usize" => w!(AUsize, TUsize, usize, |p| p.u() as usize),
            "i8" => w!(AI8, TI8, i8, |p| p.u() as i8),
            "i16" => w!(AI16, TI16, i16, |p| p.u() as i16),
            "i32" => w!(AI32, TI32, i32, |p| p.u() as i32),
            "i64" => w!(AI64, TI64, i64, |p| p.u() as i64),
            "i128" => w!(AI128, TI128, i128, |p| (p.u() as i128) << 60),
            "f32" => w!(AF32, TF32, f32, |p| p.f() as f32),
            "f64" => w!(AF64, TF64, f64, |p| p.f()),
            _ => Err(format!("unknown weight type {wt}")),
        };
    }
    let d = Dist::build(case)?;
    Ok(Box::new(Scalar { case: case.clone(), d }))
}
