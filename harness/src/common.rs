//! Shared infrastructure: output journal, panic capture, CPU-time watchdog.
use serde_json::Value;
use std::cell::RefCell;
use std::io::Write;
use std::sync::Mutex;
use std::sync::atomic::{AtomicU64, Ordering};

pub static OUT: Mutex<Option<std::io::BufWriter<std::fs::File>>> = Mutex::new(None);

pub fn open_out(path: &str, append: bool) {
    let f = std::fs::OpenOptions::new()
        .create(true)
        .write(true)
        .append(append)
        .truncate(!append)
        .open(path)
        .unwrap_or_else(|e| panic!("open {path}: {e}"));
    *OUT.lock().unwrap() = Some(std::io::BufWriter::new(f));
}
pub fn emit(v: &Value) {
    let mut g = OUT.lock().unwrap_or_else(|e| e.into_inner());
    match g.as_mut() {
        Some(w) => {
            let _ = writeln!(w, "{v}");
        }
        None => println!("{v}"),
    }
}
pub fn flush() {
    let mut g = OUT.lock().unwrap_or_else(|e| e.into_inner());
    if let Some(w) = g.as_mut() {
        let _ = w.flush();
    }
}

thread_local! {
    pub static LAST_PANIC: RefCell<Option<String>> = const { RefCell::new(None) };
}

pub fn install_panic_hook() {
    std::panic::set_hook(Box::new(|info| {
        let payload = info.payload();
        let msg = if let Some(s) = payload.downcast_ref::<&str>() {
            s.to_string()
        } else if let Some(s) = payload.downcast_ref::<String>() {
            s.clone()
        } else if payload.downcast_ref::<crate::rng::WordBudget>().is_some() {
            "<WordBudget>".to_string()
        } else if payload.downcast_ref::<crate::rng::ReplayExhausted>().is_some() {
            "<ReplayExhausted>".to_string()
        } else {
            "<non-string payload>".to_string()
        };
        let loc = info
            .location()
            .map(|l| format!("{}:{}", l.file(), l.line()))
            .unwrap_or_default();
        LAST_PANIC.with(|p| *p.borrow_mut() = Some(format!("{msg} @ {loc}")));
    }));
}

pub enum Caught<T> {
    Ok(T),
    /// ordinary panic: message @ location
    Panic(String),
    Budget(u64),
    ReplayExhausted,
}

pub fn guarded<T>(f: impl FnOnce() -> T) -> Caught<T> {
    match std::panic::catch_unwind(std::panic::AssertUnwindSafe(f)) {
        Ok(v) => Caught::Ok(v),
        Err(p) => {
            if let Some(b) = p.downcast_ref::<crate::rng::WordBudget>() {
                Caught::Budget(b.0)
            } else if p.downcast_ref::<crate::rng::ReplayExhausted>().is_some() {
                Caught::ReplayExhausted
            } else {
                let m = LAST_PANIC.with(|p| p.borrow_mut().take()).unwrap_or_else(|| "<unknown panic>".into());
                Caught::Panic(m)
            }
        }
    }
}

/// Strip the registry / repo path prefix from a panic location so signatures are stable.
pub fn norm_panic(msg: &str) -> String {
    let mut s = msg.to_string();
    if let Some(i) = s.find("/repo/") {
        if let Some(at) = s.rfind(" @ ") {
            if i > at {
                s.replace_range(at + 3..i + 6, "");
            }
        }
    }
    s
}

// ---------------------------------------------------------------------------------------------
// Watchdog: CPU time of the process vs a progress counter ticked by the monitors.
pub static PROGRESS: AtomicU64 = AtomicU64::new(0);
/// budget in ms of CPU for the operation in flight (set by monitors; 0 = no watch)
pub static BUDGET_MS: AtomicU64 = AtomicU64::new(0);
pub static CTX: Mutex<Option<Value>> = Mutex::new(None);
pub static CTX_A: AtomicU64 = AtomicU64::new(0);
pub static CTX_B: AtomicU64 = AtomicU64::new(0);
pub static CTX_C: AtomicU64 = AtomicU64::new(0);
pub static CTX_D: AtomicU64 = AtomicU64::new(0);

#[inline]
pub fn tick() {
    PROGRESS.fetch_add(1, Ordering::Relaxed);
}
pub fn set_ctx(v: Value) {
    *CTX.lock().unwrap_or_else(|e| e.into_inner()) = Some(v);
}
pub fn get_ctx() -> Value {
    CTX.lock().unwrap_or_else(|e| e.into_inner()).clone().unwrap_or(Value::Null)
}
#[inline]
pub fn set_abcd(a: u64, b: u64, c: u64, d: u64) {
    CTX_A.store(a, Ordering::Relaxed);
    CTX_B.store(b, Ordering::Relaxed);
    CTX_C.store(c, Ordering::Relaxed);
    CTX_D.store(d, Ordering::Relaxed);
}

pub fn cpu_ms() -> u64 {
    let mut ts = libc::timespec { tv_sec: 0, tv_nsec: 0 };
    // SAFETY: plain libc call with a valid out pointer (harness code, not the crate under test)
    unsafe {
        libc::clock_gettime(libc::CLOCK_PROCESS_CPUTIME_ID, &mut ts);
    }
    ts.tv_sec as u64 * 1000 + ts.tv_nsec as u64 / 1_000_000
}

pub fn start_watchdog() {
    std::thread::spawn(|| {
        let mut last_prog = PROGRESS.load(Ordering::Relaxed);
        let mut last_cpu = cpu_ms();
        loop {
            std::thread::sleep(std::time::Duration::from_millis(25));
            let p = PROGRESS.load(Ordering::Relaxed);
            let c = cpu_ms();
            let budget = BUDGET_MS.load(Ordering::Relaxed);
            if p != last_prog || budget == 0 {
                last_prog = p;
                last_cpu = c;
                continue;
            }
            if c - last_cpu >= budget {
                let ctx = CTX.lock().unwrap_or_else(|e| e.into_inner()).clone();
                emit(&serde_json::json!({
                    "ev": "hang", "cpu_ms": c - last_cpu, "budget_ms": budget, "ctx": ctx,
                    "a": CTX_A.load(Ordering::Relaxed), "b": CTX_B.load(Ordering::Relaxed),
                    "c": CTX_C.load(Ordering::Relaxed), "d": CTX_D.load(Ordering::Relaxed),
                }));
                flush();
                // SAFETY: terminate the process without unwinding the stuck worker
                unsafe { libc::_exit(3) }
            }
        }
    });
}

pub fn hex64(x: u64) -> String {
    format!("{x:016x}")
}
pub fn parse_hex64(s: &str) -> u64 {
    u64::from_str_radix(s.trim_start_matches("0x"), 16).expect("hex64")
}
pub fn fbits(v: &Value) -> f64 {
    // "f:hex" or plain number
    if let Some(s) = v.as_str() {
        if let Some(h) = s.strip_prefix("f:") {
            return f64::from_bits(parse_hex64(h));
        }
        return s.parse().expect("float string");
    }
    v.as_f64().expect("float")
}
