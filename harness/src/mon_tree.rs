//! C09: model-based history monitor for WeightedTreeIndex (DESIGN.md §3.6) and
//! C10: sampling monitors on trees, fresh and after histories (§3.1-§3.4 applied to the tree).
use crate::common::*;
use crate::rng::*;
use rand_distr::Distribution;
use rand_distr::weighted::{Error as WErr, WeightedTreeIndex};
use serde_json::{Value, json};
use std::collections::BTreeMap;

#[derive(Clone, Debug)]
enum Op<W> {
    Push(W),
    Pop,
    Update(usize, W),
}

struct Obs {
    ops: u64,
    outcomes: BTreeMap<String, u64>,
    level_up: u64,
    level_down: u64,
    max_len: usize,
    histories: u64,
    eq_fresh_checks: u64,
    get_checks: u64,
}
impl Obs {
    fn new() -> Self {
        Obs { ops: 0, outcomes: BTreeMap::new(), level_up: 0, level_down: 0, max_len: 0, histories: 0, eq_fresh_checks: 0, get_checks: 0 }
    }
    fn out(&mut self, op: &str, res: &str) {
        *self.outcomes.entry(format!("{op}:{res}")).or_insert(0) += 1;
    }
}

fn is_pow2(n: usize) -> bool {
    n != 0 && n & (n - 1) == 0
}

macro_rules! tree_mod {
    ($m:ident, $W:ty, $is_float:expr, $wide:ty, $eps:expr) => {
        pub mod $m {
            use super::*;
            type W = $W;
            pub const NAME: &str = stringify!($W);
            const IS_FLOAT: bool = $is_float;
            const EPS: f64 = $eps;

            #[allow(unused_comparisons)]
            fn invalid(w: W) -> bool {
                w != w || w < (0 as W)
            }
            fn total_wide(model: &[W]) -> $wide {
                model.iter().map(|w| *w as $wide).sum()
            }
            fn fits(t: $wide) -> bool {
                if IS_FLOAT { true } else { t <= (W::MAX as $wide) }
            }
            fn showv(v: &[W]) -> String {
                format!("{v:?}")
            }

            /// state compare; returns Err(description) on the first disagreement
            fn compare(tree: &WeightedTreeIndex<W>, model: &[W], h: u64, tmax: f64, obs: &mut Obs) -> Result<(), String> {
                if tree.len() != model.len() {
                    return Err(format!("len {} != model {}", tree.len(), model.len()));
                }
                if tree.is_empty() != model.is_empty() {
                    return Err("is_empty disagrees".into());
                }
                let tot = total_wide(model);
                let valid_model = !model.is_empty() && tot > (0 as $wide);
                if !IS_FLOAT && tree.is_valid() != valid_model {
                    return Err(format!("is_valid {} != model {}", tree.is_valid(), valid_model));
                }
                let tol = if IS_FLOAT { 4.0 * (h as f64 + 1.0) * EPS * tmax } else { 0.0 };
                for (i, w) in model.iter().enumerate() {
                    let g = match guarded(|| tree.get(i)) {
                        Caught::Ok(g) => g,
                        Caught::Panic(m) => return Err(format!("get({i}) panicked: {m}")),
                        _ => unreachable!(),
                    };
                    obs.get_checks += 1;
                    let bad = if IS_FLOAT { ((g as f64) - (*w as f64)).abs() > tol } else { g != *w };
                    if bad {
                        return Err(format!("get({i}) = {g:?} != model {w:?} (tol {tol:e})"));
                    }
                }
                if !IS_FLOAT {
                    match guarded(|| WeightedTreeIndex::new(model.to_vec())) {
                        Caught::Ok(Ok(fresh)) => {
                            obs.eq_fresh_checks += 1;
                            if *tree != fresh {
                                return Err(format!("tree != WeightedTreeIndex::new(model): {tree:?} vs {fresh:?}"));
                            }
                        }
                        Caught::Ok(Err(e)) => return Err(format!("fresh build of the model failed: {e:?}")),
                        Caught::Panic(m) => return Err(format!("fresh build panicked: {m}")),
                        _ => unreachable!(),
                    }
                }
                Ok(())
            }

            /// apply one op to tree and model; Err(description) on a violation
            fn apply(tree: &mut WeightedTreeIndex<W>, model: &mut Vec<W>, op: &Op<W>, tmax: &mut f64, obs: &mut Obs) -> Result<(), String> {
                obs.ops += 1;
                let before = tree.clone();
                let before_dbg = format!("{before:?}");
                let tot = total_wide(model);
                let res: Result<(), WErr>;
                let expect: Result<(), &str>;
                let opname;
                match op {
                    Op::Push(w) => {
                        opname = "push";
                        expect = if invalid(*w) { Err("InvalidWeight") } else if !fits(tot + (*w as $wide)) { Err("Overflow") } else { Ok(()) };
                        res = match guarded(|| tree.push(*w)) {
                            Caught::Ok(r) => r,
                            Caught::Panic(m) => return Err(format!("push panicked: {m}")),
                            _ => unreachable!(),
                        };
                        if res.is_ok() {
                            if is_pow2(model.len() + 1) {
                                obs.level_up += 1;
                            }
                            model.push(*w);
                        }
                    }
                    Op::Pop => {
                        opname = "pop";
                        let got = match guarded(|| tree.pop()) {
                            Caught::Ok(r) => r,
                            Caught::Panic(m) => return Err(format!("pop panicked: {m}")),
                            _ => unreachable!(),
                        };
                        let want = model.pop();
                        match (got, want) {
                            (None, None) => obs.out("pop", "None"),
                            (Some(g), Some(w)) => {
                                obs.out("pop", "Some");
                                if is_pow2(model.len() + 1) {
                                    obs.level_down += 1;
                                }
                                let bad = if IS_FLOAT { ((g as f64) - (w as f64)).abs() > 4.0 * (obs.ops as f64 + 1.0) * EPS * *tmax } else { g != w };
                                if bad {
                                    return Err(format!("pop returned {g:?}, model last weight {w:?}"));
                                }
                            }
                            (g, w) => return Err(format!("pop returned {g:?}, model {w:?}")),
                        }
                        return Ok(());
                    }
                    Op::Update(i, w) => {
                        opname = "update";
                        let old = model[*i];
                        expect = if invalid(*w) {
                            Err("InvalidWeight")
                        } else if !fits(tot - (old as $wide) + (*w as $wide)) {
                            Err("Overflow")
                        } else {
                            Ok(())
                        };
                        res = match guarded(|| tree.update(*i, *w)) {
                            Caught::Ok(r) => r,
                            Caught::Panic(m) => return Err(format!("update({i}) with in-range index panicked: {m}")),
                            _ => unreachable!(),
                        };
                        if res.is_ok() {
                            model[*i] = *w;
                        }
                    }
                }
                let got = match &res {
                    Ok(()) => "Ok".to_string(),
                    Err(e) => format!("{e:?}"),
                };
                obs.out(opname, &got);
                let want = match expect {
                    Ok(()) => "Ok",
                    Err(e) => e,
                };
                // float totals overflowing to inf are unspecified: do not judge the outcome class there
                let float_open = IS_FLOAT && !(total_wide(model) as f64).is_finite();
                if got != want && !float_open {
                    return Err(format!("{opname} returned {got}, expected {want}"));
                }
                if res.is_err() && (*tree != before || format!("{tree:?}") != before_dbg) {
                    // NaN-free trees only: PartialEq on floats with NaN is never equal, but NaN is never stored
                    return Err(format!("{opname} returned {got} but changed the structure: {before_dbg} -> {tree:?}"));
                }
                let t = total_wide(model) as f64;
                if t > *tmax {
                    *tmax = t;
                }
                Ok(())
            }

            fn report(kind: &str, start: &[W], hist: &[Op<W>], msg: &str, profile: &str) {
                emit(&json!({"ev": "viol", "wt": NAME, "kind": kind, "start": showv(start), "history": format!("{hist:?}"), "history_len": hist.len(), "msg": msg, "profile": profile}));
            }

            /// replay a history from scratch; returns the index of the failing op and message
            fn replay(start: &[W], hist: &[Op<W>]) -> Option<(usize, String)> {
                let mut obs = Obs::new();
                let mut tree = match WeightedTreeIndex::new(start.to_vec()) {
                    Ok(t) => t,
                    Err(_) => return None,
                };
                let mut model = start.to_vec();
                let mut tmax = total_wide(&model) as f64;
                for (j, op) in hist.iter().enumerate() {
                    if let Op::Update(i, _) = op {
                        if *i >= model.len() {
                            return None;
                        }
                    }
                    if let Err(m) = apply(&mut tree, &mut model, op, &mut tmax, &mut obs) {
                        return Some((j, m));
                    }
                    if let Err(m) = compare(&tree, &model, j as u64 + 1, tmax, &mut obs) {
                        return Some((j, m));
                    }
                }
                None
            }

            /// greedy shrinking: drop ops while the history still fails
            fn shrink(start: &[W], hist: Vec<Op<W>>) -> (Vec<Op<W>>, String) {
                let mut h = hist;
                let mut msg = replay(start, &h).map(|x| x.1).unwrap_or_default();
                if let Some((j, _)) = replay(start, &h) {
                    h.truncate(j + 1);
                }
                let mut changed = true;
                let mut budget = 4000;
                while changed && budget > 0 {
                    changed = false;
                    let mut i = 0;
                    while i < h.len() && budget > 0 {
                        budget -= 1;
                        let mut c = h.clone();
                        c.remove(i);
                        if let Some((_, m)) = replay(start, &c) {
                            h = c;
                            msg = m;
                            changed = true;
                        } else {
                            i += 1;
                        }
                    }
                }
                (h, msg)
            }

            fn dfs(tree: &WeightedTreeIndex<W>, model: &Vec<W>, alpha: &[W], depth: u32, start: &[W], hist: &mut Vec<Op<W>>, tmax: f64, obs: &mut Obs, nviol: &mut u64, profile: &str) {
                if depth == 0 {
                    obs.histories += 1;
                    return;
                }
                let mut ops: Vec<Op<W>> = alpha.iter().map(|w| Op::Push(*w)).collect();
                ops.push(Op::Pop);
                for i in 0..model.len() {
                    for w in alpha {
                        ops.push(Op::Update(i, *w));
                    }
                }
                for op in ops {
                    let mut t = tree.clone();
                    let mut m = model.clone();
                    let mut tm = tmax;
                    hist.push(op.clone());
                    tick();
                    let r = apply(&mut t, &mut m, &op, &mut tm, obs).and_then(|_| compare(&t, &m, hist.len() as u64, tm, obs));
                    match r {
                        Err(msg) => {
                            *nviol += 1;
                            if *nviol <= 5 {
                                report("history", start, hist, &msg, profile);
                            }
                        }
                        Ok(()) => dfs(&t, &m, alpha, depth - 1, start, hist, tm, obs, nviol, profile),
                    }
                    hist.pop();
                }
            }

            pub fn exhaustive(alpha: &[W], max_start: usize, depth: u32, profile: &str) {
                let mut obs = Obs::new();
                let mut nviol = 0u64;
                // all start vectors of length <= max_start over the alphabet
                let mut starts: Vec<Vec<W>> = vec![vec![]];
                let mut frontier: Vec<Vec<W>> = vec![vec![]];
                for _ in 0..max_start {
                    let mut next = vec![];
                    for v in &frontier {
                        for a in alpha {
                            let mut w = v.clone();
                            w.push(*a);
                            next.push(w);
                        }
                    }
                    starts.extend(next.iter().cloned());
                    frontier = next;
                }
                let mut n_new = 0u64;
                for s in &starts {
                    n_new += 1;
                    let tot = if s.iter().any(|w| invalid(*w)) { None } else { Some(total_wide(s)) };
                    let expect = match tot {
                        None => "InvalidWeight",
                        Some(t) if !fits(t) => "Overflow",
                        _ => "Ok",
                    };
                    match guarded(|| WeightedTreeIndex::new(s.clone())) {
                        Caught::Ok(Ok(t)) => {
                            obs.out("new", "Ok");
                            if expect != "Ok" {
                                nviol += 1;
                                report("new", s, &[], &format!("new returned Ok, expected {expect}"), profile);
                                continue;
                            }
                            let tm = total_wide(s) as f64;
                            if let Err(m) = compare(&t, s, 0, tm, &mut obs) {
                                nviol += 1;
                                report("new", s, &[], &m, profile);
                                continue;
                            }
                            let mut hist = vec![];
                            dfs(&t, s, alpha, depth, s, &mut hist, tm, &mut obs, &mut nviol, profile);
                        }
                        Caught::Ok(Err(e)) => {
                            let got = format!("{e:?}");
                            obs.out("new", &got);
                            if got != expect {
                                nviol += 1;
                                report("new", s, &[], &format!("new returned {got}, expected {expect}"), profile);
                            }
                        }
                        Caught::Panic(m) => {
                            nviol += 1;
                            report("new", s, &[], &format!("new panicked: {m}"), profile);
                        }
                        _ => unreachable!(),
                    }
                }
                emit(&json!({"ev": "tree_exhaustive", "wt": NAME, "profile": profile, "depth": depth, "alphabet": showv(alpha), "starts": n_new, "histories": obs.histories,
                    "ops": obs.ops, "outcomes": obs.outcomes, "level_up": obs.level_up, "level_down": obs.level_down, "get_checks": obs.get_checks,
                    "eq_fresh_checks": obs.eq_fresh_checks, "violations": nviol}));
                flush();
            }

            fn rand_weight(rng: &mut Xo, alpha: &[W], scale: &[W]) -> W {
                match rng.below(10) {
                    0 => alpha[rng.below(alpha.len() as u64) as usize],
                    1 => 0 as W,
                    _ => {
                        let s = scale[rng.below(scale.len() as u64) as usize];
                        if IS_FLOAT { ((s as f64) * rng.unit()) as W } else { ((s as f64) * rng.unit()) as W }
                    }
                }
            }

            /// one random history; returns (final tree, final model, h, tmax) or reports a violation
            pub fn random_history(rng: &mut Xo, alpha: &[W], scale: &[W], len: usize, mode: u8, obs: &mut Obs, profile: &str, nviol: &mut u64) -> Option<(WeightedTreeIndex<W>, Vec<W>)> {
                let n0 = rng.below(6) as usize;
                let start: Vec<W> = (0..n0).map(|_| rand_weight(rng, &alpha[..alpha.len().min(3)], scale)).collect();
                let mut tree = match WeightedTreeIndex::new(start.clone()) {
                    Ok(t) => t,
                    Err(_) => return None,
                };
                let mut model = start.clone();
                let mut tmax = total_wide(&model) as f64;
                let mut hist: Vec<Op<W>> = Vec::with_capacity(len);
                // phases: grow, churn, shrink, churn: crosses power-of-two sizes in both directions
                let target_hi = 1 + rng.below(70) as usize;
                for step in 0..len {
                    let phase = (step * 4) / len;
                    let r = rng.below(100);
                    let op = if model.is_empty() {
                        if r < 10 { Op::Pop } else { Op::Push(rand_weight(rng, alpha, scale)) }
                    } else {
                        let (p_push, p_pop) = match phase {
                            0 => if model.len() < target_hi { (60, 5) } else { (10, 10) },
                            2 if mode == 0 => (5, 60),
                            _ if mode == 1 => (12, 8),
                            _ => (20, 20),
                        };
                        if r < p_push {
                            Op::Push(rand_weight(rng, alpha, scale))
                        } else if r < p_push + p_pop {
                            Op::Pop
                        } else {
                            Op::Update(rng.below(model.len() as u64) as usize, rand_weight(rng, alpha, scale))
                        }
                    };
                    hist.push(op.clone());
                    tick();
                    let r = apply(&mut tree, &mut model, &op, &mut tmax, obs);
                    // full compare is O(len): do it every op for short trees, every 8th otherwise, and at the end
                    let r = r.and_then(|_| if model.len() <= 16 || step % 8 == 0 || step + 1 == len { compare(&tree, &model, step as u64 + 1, tmax, obs) } else { Ok(()) });
                    if model.len() > obs.max_len {
                        obs.max_len = model.len();
                    }
                    if let Err(_m) = r {
                        *nviol += 1;
                        if *nviol <= 3 {
                            let (h, msg) = shrink(&start, hist.clone());
                            report("history", &start, &h, &msg, profile);
                        }
                        return None;
                    }
                }
                obs.histories += 1;
                Some((tree, model))
            }

            pub fn random(seed: u64, alpha: &[W], scale: &[W], n_hist: usize, len: usize, profile: &str) {
                let mut obs = Obs::new();
                let mut nviol = 0u64;
                let mut rng = Xo::new(mix(&[seed, 0xC09]));
                for _ in 0..n_hist {
                    random_history(&mut rng, alpha, scale, len, 0, &mut obs, profile, &mut nviol);
                }
                emit(&json!({"ev": "tree_random", "wt": NAME, "profile": profile, "histories": obs.histories, "history_len": len, "ops": obs.ops, "outcomes": obs.outcomes,
                    "level_up": obs.level_up, "level_down": obs.level_down, "max_len": obs.max_len, "get_checks": obs.get_checks, "eq_fresh_checks": obs.eq_fresh_checks, "violations": nviol}));
                flush();
            }

            // -------------------------------------------------------------------------------- C10
            /// sample counts on a tree: n draws from generator `gen` (0 = xoshiro, 1 = chacha)
            pub fn sample_counts(tree: &WeightedTreeIndex<W>, len: usize, n: u64, seed: u64, generator: u64) -> Result<(Vec<u64>, u64), String> {
                let mut counts = vec![0u64; len + 1];
                let mut words = 0u64;
                let r = guarded(|| {
                    if generator == 0 {
                        let mut rng = Fast(Xo::new(seed), 0);
                        for _ in 0..n {
                            let i: usize = tree.sample(&mut rng);
                            counts[i.min(len)] += 1;
                        }
                        words = rng.1;
                    } else {
                        let mut rng = Fast(Cha::new(seed), 0);
                        for _ in 0..n {
                            let i: usize = tree.sample(&mut rng);
                            counts[i.min(len)] += 1;
                        }
                        words = rng.1;
                    }
                });
                match r {
                    Caught::Ok(()) => Ok((counts, words)),
                    Caught::Panic(m) => Err(m),
                    _ => unreachable!(),
                }
            }

            /// adversarial single-word streams on a tree: returns number of executions
            pub fn adversarial(tree: &WeightedTreeIndex<W>, model: &[W], seed: u64, desc: &str, profile: &str, nviol: &mut u64) -> u64 {
                let lat = lattice();
                let mut execs = 0;
                for pos in 0..3u64 {
                    for (class, w) in &lat {
                        let mut rng = Mon::new(Scripted::new(seed, pos, *w)).budget(100_000);
                        for call in 0..4 {
                            tick();
                            let r = guarded(|| tree.try_sample(&mut rng));
                            let bad = match r {
                                Caught::Ok(Ok(i)) => {
                                    if i >= model.len() {
                                        Some(format!("index {i} >= len {}", model.len()))
                                    } else if !IS_FLOAT && model[i] == (0 as W) {
                                        Some(format!("index {i} has weight zero"))
                                    } else {
                                        None
                                    }
                                }
                                Caught::Ok(Err(e)) => Some(format!("try_sample on a valid tree returned {e:?}")),
                                Caught::Panic(m) => Some(format!("panic: {m}")),
                                Caught::Budget(_) => Some("word budget exceeded".into()),
                                _ => unreachable!(),
                            };
                            if let Some(m) = bad {
                                *nviol += 1;
                                if *nviol <= 3 {
                                    emit(&json!({"ev": "viol", "wt": NAME, "kind": if m.starts_with("panic") { "sample_panic" } else { "sample_bad_index" }, "tree": desc, "weights": showv(model),
                                        "stream": {"seed": seed, "pos": pos, "word": hex64(*w), "class": class, "call": call}, "msg": m, "profile": profile}));
                                }
                                break;
                            }
                            if rng.inner.idx > pos {
                                break;
                            }
                        }
                        execs += 1;
                    }
                }
                execs
            }
        }
    };
}
tree_mod!(t_u8, u8, false, u128, 0.0);
tree_mod!(t_i8, i8, false, i128, 0.0);
tree_mod!(t_u16, u16, false, u128, 0.0);
tree_mod!(t_i16, i16, false, i128, 0.0);
tree_mod!(t_u32, u32, false, u128, 0.0);
tree_mod!(t_i32, i32, false, i128, 0.0);
tree_mod!(t_u64, u64, false, u128, 0.0);
tree_mod!(t_i64, i64, false, i128, 0.0);
tree_mod!(t_usize, usize, false, u128, 0.0);
tree_mod!(t_f32, f32, true, f64, f32::EPSILON as f64);
tree_mod!(t_f64, f64, true, f64, f64::EPSILON);

// 128-bit types: the "wide" accumulator cannot be wider; totals are checked with the same width
// using saturating logic in a dedicated module would duplicate everything, so these two types are
// exercised with weights <= 2^120 where u128/i128 sums of < 2^7 elements cannot wrap.
tree_mod!(t_u128, u128, false, u128, 0.0);
tree_mod!(t_i128, i128, false, i128, 0.0);

pub fn run_c09(job: &Value) {
    let profile = job["profile"].as_str().unwrap_or("release").to_string();
    let seed = job["seed"].as_u64().unwrap_or(0);
    let part = job["part"].as_str().unwrap_or("");
    let depth = job["depth"].as_u64().unwrap_or(3) as u32;
    let n_hist = job["n_hist"].as_u64().unwrap_or(1000) as usize;
    let hlen = job["hist_len"].as_u64().unwrap_or(1000) as usize;
    crate::common::BUDGET_MS.store(20_000, std::sync::atomic::Ordering::Relaxed);
    set_ctx(json!({"phase": "c09", "part": part, "profile": profile}));
    macro_rules! rnd {
        ($m:ident, $alpha:expr, $scale:expr) => {
            $m::random(seed, &$alpha, &$scale, n_hist, hlen, &profile)
        };
    }
    match part {
        "ex_u8" => t_u8::exhaustive(&[0, 1, 2, 254, 255], 3, depth, &profile),
        "ex_i8" => t_i8::exhaustive(&[0, 1, 2, 126, 127, -1], 3, depth, &profile),
        "ex_u16" => t_u16::exhaustive(&[0, 1, u16::MAX - 1, u16::MAX], 2, depth.min(3), &profile),
        "ex_f32" => t_f32::exhaustive(&[0.0, 1.0, 0.1, 1e30, -1.0, f32::NAN], 2, depth.min(3), &profile),
        "rnd_u8" => rnd!(t_u8, [0, 1, 2, 254, 255], [1, 3, 10]),
        "rnd_i8" => rnd!(t_i8, [0, 1, 2, 126, 127, -1], [1, 3, 10]),
        "rnd_u16" => rnd!(t_u16, [0, 1, u16::MAX - 1, u16::MAX], [1, 100, 2000]),
        "rnd_i16" => rnd!(t_i16, [0, 1, i16::MAX, -1, i16::MIN], [1, 100, 1000]),
        "rnd_u32" => rnd!(t_u32, [0, 1, u32::MAX - 1, u32::MAX], [1, 1000, 1 << 26]),
        "rnd_i32" => rnd!(t_i32, [0, 1, i32::MAX, -1, i32::MIN], [1, 1000, 1 << 25]),
        "rnd_u64" => rnd!(t_u64, [0, 1, u64::MAX - 1, u64::MAX], [1, 1000, 1 << 58]),
        "rnd_i64" => rnd!(t_i64, [0, 1, i64::MAX, -1, i64::MIN], [1, 1000, 1 << 57]),
        "rnd_usize" => rnd!(t_usize, [0, 1, usize::MAX - 1, usize::MAX], [1, 1000, 1 << 58]),
        "rnd_u128" => rnd!(t_u128, [0, 1, 1 << 100], [1, 1000, 1 << 110]),
        "rnd_i128" => rnd!(t_i128, [0, 1, 1 << 100, -1], [1, 1000, 1 << 110]),
        "rnd_f32" => rnd!(t_f32, [0.0, 1.0, 1e-4, 1e4, -1.0, f32::NAN, 0.1], [1.0, 1e-4, 1e4]),
        "rnd_f64" => rnd!(t_f64, [0.0, 1.0, 1e-4, 1e4, -1.0, f64::NAN, 0.1], [1.0, 1e-4, 1e4]),
        _ => panic!("unknown part {part}"),
    }
    emit(&json!({"ev": "done"}));
    flush();
}

// ================================================================================== C10

/// order in which increasing targets reach the indices: left subtree, right subtree, node
fn target_order(len: usize) -> Vec<usize> {
    fn rec(i: usize, len: usize, out: &mut Vec<usize>) {
        if i >= len {
            return;
        }
        rec(2 * i + 1, len, out);
        rec(2 * i + 2, len, out);
        out.push(i);
    }
    let mut out = Vec::with_capacity(len);
    // iterative would be safer for huge len; len <= 10^4 gives depth <= 14
    rec(0, len, &mut out);
    out
}

fn tree_depth(len: usize) -> u32 {
    (usize::BITS - len.leading_zeros()) as u32
}

/// f32 trees: every one of the 2^23 targets
fn c10_f32(tree: &WeightedTreeIndex<f32>, model: &[f32], desc: &str, seed: u64, profile: &str) -> Value {
    let len = model.len();
    let mut counts = vec![0u64; len + 1];
    let mut panics = 0u64;
    let mut multiword = 0u64;
    let mut first_panic: Option<Value> = None;
    let mut low = Xo::new(seed ^ 0xabc);
    for b in 0u64..(1 << 23) {
        let w = (b << 41) | (low.next() & 0x1ff_ffff_ffff);
        let mut rng = Mon::new(Scripted::new(seed, 0, w)).budget(1000);
        if b & 0xffff == 0 {
            tick();
        }
        match guarded(|| tree.try_sample(&mut rng)) {
            Caught::Ok(Ok(i)) => {
                counts[i.min(len)] += 1;
                if rng.count != 1 {
                    multiword += 1;
                }
            }
            Caught::Ok(Err(_)) => counts[len] += 1,
            Caught::Panic(m) => {
                panics += 1;
                if first_panic.is_none() {
                    first_panic = Some(json!({"word": hex64(w), "bits23": b, "msg": m}));
                }
            }
            _ => {}
        }
    }
    let gets: Vec<f64> = (0..len).map(|i| tree.get(i) as f64).collect();
    let total = tree.get(0) as f64 + 0.0; // placeholder, real total below
    let _ = total;
    json!({"ev": "c10_f32", "tree": desc, "profile": profile, "len": len, "seed": seed, "counts": counts, "panics": panics, "first_panic": first_panic,
           "multiword": multiword, "get": gets, "model": model.iter().map(|x| *x as f64).collect::<Vec<_>>(), "depth": tree_depth(len)})
}

/// f64 trees: boundaries of every index's target interval by bisection over the 52-bit draw
fn c10_f64(tree: &WeightedTreeIndex<f64>, model: &[f64], desc: &str, seed: u64, profile: &str) -> Value {
    let len = model.len();
    let order = target_order(len);
    let mut rank = vec![0usize; len];
    for (r, &i) in order.iter().enumerate() {
        rank[i] = r;
    }
    let mut calls = 0u64;
    let mut panics: Vec<Value> = vec![];
    let mut nonmono = 0u64;
    let mut multiword = 0u64;
    // f(k) = rank of the index returned for the 52-bit pattern k (None on panic)
    let mut eval = |k: u64, calls: &mut u64, panics: &mut Vec<Value>, multiword: &mut u64| -> Option<usize> {
        let w = (k << 12) | 0x5a5;
        let mut rng = Mon::new(Scripted::new(seed, 0, w)).budget(1000);
        *calls += 1;
        match guarded(|| tree.try_sample(&mut rng)) {
            Caught::Ok(Ok(i)) => {
                if rng.count != 1 {
                    *multiword += 1;
                }
                if i < len { Some(rank[i]) } else { None }
            }
            Caught::Ok(Err(_)) => None,
            Caught::Panic(m) => {
                if panics.len() < 3 {
                    panics.push(json!({"word": hex64(w), "bits52": k, "msg": m}));
                } else {
                    panics.push(Value::Null);
                }
                None
            }
            _ => None,
        }
    };
    let top = (1u64 << 52) - 1;
    // monotonicity precondition on random ordered pairs
    let mut pr = Xo::new(seed ^ 0x77);
    for _ in 0..2000 {
        let a = pr.next() >> 12;
        let b = pr.next() >> 12;
        let (a, b) = if a <= b { (a, b) } else { (b, a) };
        if let (Some(ra), Some(rb)) = (eval(a, &mut calls, &mut panics, &mut multiword), eval(b, &mut calls, &mut panics, &mut multiword)) {
            if ra > rb {
                nonmono += 1;
            }
        }
    }
    // boundaries: for each rank r, the smallest k with f(k) >= r  (first[r]); width of rank r = first[r+1] - first[r]
    let mut first = vec![0u64; len + 1];
    first[len] = top + 1;
    let mut probes = 0u64;
    for r in 1..len {
        // smallest k in [0, top] with f(k) >= r, or top+1
        let (mut lo, mut hi) = (0u64, top + 1);
        while lo < hi {
            let mid = lo + (hi - lo) / 2;
            let fr = eval(mid, &mut calls, &mut panics, &mut multiword).unwrap_or(usize::MAX);
            if fr >= r { hi = mid } else { lo = mid + 1 }
        }
        first[r] = lo;
    }
    // probe +-8 words around every boundary, and the extremes, for panics / bad indices
    let mut bad_index = 0u64;
    let mut pts: Vec<u64> = vec![0, 1, top - 1, top];
    for r in 1..len {
        for d in 0..=8u64 {
            pts.push(first[r].saturating_sub(d).min(top));
            pts.push((first[r] + d).min(top));
        }
    }
    for k in pts {
        probes += 1;
        let before = panics.len();
        let r = eval(k, &mut calls, &mut panics, &mut multiword);
        if r.is_none() && panics.len() == before {
            bad_index += 1;
        }
    }
    let widths: Vec<f64> = (0..len).map(|r| (first[r + 1] - first[r]) as f64 / (1u64 << 52) as f64).collect();
    let gets: Vec<f64> = (0..len).map(|i| tree.get(i)).collect();
    json!({"ev": "c10_f64", "tree": desc, "profile": profile, "len": len, "seed": seed, "order": order, "widths_by_rank": widths, "get": gets, "model": model,
           "calls": calls, "probes": probes, "panics": panics.len(), "panic_samples": panics.iter().filter(|p| !p.is_null()).collect::<Vec<_>>(),
           "nonmonotone_pairs": nonmono, "multiword": multiword, "bad_index": bad_index, "depth": tree_depth(len)})
}

pub fn run_c10(job: &Value) {
    let profile = job["profile"].as_str().unwrap_or("release").to_string();
    let seed = job["seed"].as_u64().unwrap_or(0);
    let part = job["part"].as_str().unwrap_or("");
    let trees = job["trees"].as_u64().unwrap_or(4);
    let n = job["n"].as_u64().unwrap_or(1_000_000);
    let shard = job["shard"].as_u64().unwrap_or(0);
    crate::common::BUDGET_MS.store(60_000, std::sync::atomic::Ordering::Relaxed);
    set_ctx(json!({"phase": "c10", "part": part, "profile": profile}));
    let mut obs = Obs::new();
    let mut nviol = 0u64;
    // deterministic tiny trees: empty, all-zero (several lengths and ways of getting there) must return
    // InsufficientNonZero from try_sample and report !is_valid(); one-element positive trees must return 0
    macro_rules! tiny {
        ($W:ty) => {{
            let z: $W = Default::default();
            let one: $W = 1 as $W;
            // every call into the crate runs under `guarded`: a panic while building these trees is itself a violation
            let built = guarded(|| {
                let mut trees: Vec<(String, WeightedTreeIndex<$W>, bool)> = vec![];
                for n in 0..5usize {
                    if let Ok(t) = WeightedTreeIndex::<$W>::new(vec![z; n]) {
                        trees.push((format!("new([0; {n}])"), t, false));
                    }
                }
                if let Ok(mut t) = WeightedTreeIndex::<$W>::new(Vec::<$W>::new()) {
                    let _ = t.push(z);
                    trees.push(("empty then push(0)".into(), t, false));
                }
                if let Ok(mut t) = WeightedTreeIndex::<$W>::new(vec![one]) {
                    let _ = t.update(0, z);
                    trees.push(("new([1]) then update(0, 0)".into(), t, false));
                }
                if let Ok(mut t) = WeightedTreeIndex::<$W>::new(vec![z, one, one]) {
                    t.pop();
                    t.pop();
                    trees.push(("new([0,1,1]) popped twice".into(), t, false));
                }
                if let Ok(mut t) = WeightedTreeIndex::<$W>::new(vec![one, one, one, one]) {
                    for i in 0..4 {
                        let _ = t.update(i, z);
                    }
                    trees.push(("new([1;4]) all updated to 0".into(), t, false));
                }
                if let Ok(t) = WeightedTreeIndex::<$W>::new(vec![one]) {
                    trees.push(("new([1])".into(), t, true));
                }
                trees
            });
            let trees = match built {
                Caught::Ok(t) => t,
                Caught::Panic(m) => {
                    nviol += 1;
                    emit(&json!({"ev": "viol", "wt": stringify!($W), "kind": "tiny_tree_panic", "tree": "empty / all-zero / one-element trees built through new, push, update, pop", "msg": m, "profile": profile}));
                    vec![]
                }
                _ => vec![],
            };
            for (desc, t, valid) in trees {
                let mut ok = matches!(guarded(|| t.is_valid()), Caught::Ok(v) if v == valid);
                for w in [0u64, u64::MAX, 0x8000_0000_0000_0000, 0x1234_5678_9abc_def0] {
                    let mut r = Mon::new(Scripted::new(seed, 0, w)).budget(1000);
                    let res = guarded(|| t.try_sample(&mut r));
                    ok &= if valid { matches!(res, Caught::Ok(Ok(0))) } else { matches!(res, Caught::Ok(Err(WErr::InsufficientNonZero))) };
                }
                emit(&json!({"ev": "c10_invalid", "wt": stringify!($W), "tree": desc, "ok": ok, "profile": profile}));
                if !ok {
                    emit(&json!({"ev": "viol", "wt": stringify!($W), "kind": "invalid_tree_sample", "tree": desc, "msg": "is_valid()/try_sample() on an empty, all-zero or one-element tree did not behave as documented", "profile": profile}));
                }
            }
        }};
    }
    // a tree that the API hands out as valid must not carry a negative current weight (it could not be sampled
    // with probability weight / total): vectors with one negative entry at every position, through new(), and a
    // negative weight through update() / push() on a valid tree
    macro_rules! negative {
        ($W:ty, $neg:expr) => {{
            let neg: $W = $neg;
            let vals: [$W; 4] = [1 as $W, 3 as $W, 5 as $W, 0 as $W];
            let mut probes = 0u64;
            let mut check = |desc: String, t: &WeightedTreeIndex<$W>, nviol: &mut u64| {
                probes += 1;
                let zero: $W = Default::default();
                let res = guarded(|| if t.is_valid() { (0..t.len()).filter(|&i| t.get(i) < zero).collect::<Vec<usize>>() } else { vec![] });
                let msg = match res {
                    Caught::Ok(bad) if bad.is_empty() => None,
                    Caught::Ok(bad) => Some(("valid_tree_negative_weight", format!("is_valid() is true but get({}) is negative", bad[0]))),
                    Caught::Panic(m) => Some(("accessor_panic", format!("is_valid() / get() panicked: {m}"))),
                    _ => None,
                };
                if let Some((kind, m)) = msg {
                    *nviol += 1;
                    if *nviol <= 3 {
                        emit(&json!({"ev": "viol", "wt": stringify!($W), "kind": kind, "tree": desc, "msg": m, "profile": profile}));
                    }
                }
            };
            for len in 1..=7usize {
                for pos in 0..len {
                    for rot in 0..4usize {
                        let mut ws: Vec<$W> = (0..len).map(|i| vals[(i + rot) % 4]).collect();
                        ws[pos] = neg;
                        if let Caught::Ok(Ok(t)) = guarded(|| WeightedTreeIndex::<$W>::new(ws.clone())) {
                            check(format!("new({ws:?})"), &t, &mut nviol);
                        }
                        let base: Vec<$W> = (0..len).map(|i| vals[(i + rot) % 4]).collect();
                        if let Ok(mut t) = WeightedTreeIndex::<$W>::new(base.clone()) {
                            let _ = guarded(std::panic::AssertUnwindSafe(|| t.update(pos, neg)));
                            check(format!("new({base:?}).update({pos}, {neg:?})"), &t, &mut nviol);
                            let _ = guarded(std::panic::AssertUnwindSafe(|| t.push(neg)));
                            check(format!("new({base:?}).update({pos}, {neg:?}) then push({neg:?})"), &t, &mut nviol);
                        }
                    }
                }
            }
            emit(&json!({"ev": "c10_negative", "wt": stringify!($W), "probes": probes}));
        }};
    }
    if shard == 0 {
        match part {
            "i8" => negative!(i8, -1),
            "i16" => negative!(i16, -1),
            "i32" => negative!(i32, -1),
            "i64" => negative!(i64, -1),
            "i128" => negative!(i128, -1),
            "f32" => negative!(f32, -1.0),
            "f64" => negative!(f64, -1.0),
            _ => {}
        }
    }
    if shard == 0 {
        match part {
            "u8" => tiny!(u8),
            "i8" => tiny!(i8),
            "u16" => tiny!(u16),
            "i16" => tiny!(i16),
            "u32" => tiny!(u32),
            "i32" => tiny!(i32),
            "u64" => tiny!(u64),
            "i64" => tiny!(i64),
            "usize" => tiny!(usize),
            "u128" => tiny!(u128),
            "i128" => tiny!(i128),
            "f32" => tiny!(f32),
            "f64" => tiny!(f64),
            _ => {}
        }
    }
    // float trees driven back to all-zero weights: whenever is_valid() is true, try_sample must not panic
    macro_rules! zeroing {
        ($W:ty) => {{
            let mut g = Xo::new(mix(&[seed, shard, 0x2E80]));
            for k in 0..200u64 {
                let n = 1 + g.below(6) as usize;
                let ws: Vec<$W> = (0..n).map(|_| ((g.unit() * 0.999 + 0.001) * [1.0, 0.1, 0.3, 1e-3, 7.0][g.below(5) as usize]) as $W).collect();
                let mut order: Vec<usize> = (0..n).collect();
                for i in (1..n).rev() {
                    order.swap(i, g.below(i as u64 + 1) as usize);
                }
                let built = guarded(|| {
                    let mut t = WeightedTreeIndex::<$W>::new(ws.clone()).ok()?;
                    for &i in &order {
                        let _ = t.update(i, 0.0);
                    }
                    let v = t.is_valid();
                    Some((t, v))
                });
                let (t, valid) = match built {
                    Caught::Ok(Some(x)) => x,
                    Caught::Panic(m) => {
                        nviol += 1;
                        if nviol <= 3 {
                            emit(&json!({"ev": "viol", "wt": stringify!($W), "kind": "zeroed_tree_sample", "tree": format!("new({ws:?}) then every weight updated to 0 in order {order:?}"), "msg": format!("panic while updating: {m}"), "profile": profile}));
                        }
                        continue;
                    }
                    _ => continue,
                };
                let mut bad: Option<String> = None;
                for w in [0u64, u64::MAX, 0x8000_0000_0000_0000, g.next()] {
                    let mut r = Mon::new(Scripted::new(seed ^ k, 0, w)).budget(1000);
                    match guarded(|| t.try_sample(&mut r)) {
                        Caught::Ok(Ok(_)) if valid => {}
                        Caught::Ok(Err(WErr::InsufficientNonZero)) if !valid => {}
                        Caught::Panic(m) if !m.starts_with("assertion failed: target_weight") => bad = Some(format!("panic: {m}")),
                        Caught::Panic(_) => {}
                        other => bad = Some(format!("is_valid() = {valid} but try_sample returned {}", match other { Caught::Ok(r) => format!("{r:?}"), _ => "?".into() })),
                    }
                }
                if let Some(m) = bad {
                    nviol += 1;
                    if nviol <= 3 {
                        emit(&json!({"ev": "viol", "wt": stringify!($W), "kind": "zeroed_tree_sample", "tree": format!("new({ws:?}) then every weight updated to 0 in order {order:?}"), "msg": m, "profile": profile}));
                    }
                }
            }
            emit(&json!({"ev": "c10_zeroing", "wt": stringify!($W), "trees": 200}));
        }};
    }
    match part {
        "f32" => zeroing!(f32),
        "f64" => zeroing!(f64),
        _ => {}
    }
    match part {
        "f32" | "f64" => {
            for t in 0..trees {
                let tseed = mix(&[seed, shard, t, 0xC10]);
                let mut rng = Xo::new(tseed);
                let fresh = t % 2 == 0;
                if part == "f32" {
                    let scale = [1.0f32, 1e-4, 1e4];
                    let (tree, model, desc) = if fresh {
                        let len = 1 + rng.below(40) as usize;
                        let m: Vec<f32> = (0..len).map(|_| if rng.below(8) == 0 { 0.0 } else { (scale[rng.below(3) as usize] as f64 * rng.unit()) as f32 }).collect();
                        match WeightedTreeIndex::new(m.clone()) {
                            Ok(t) => (t, m, format!("fresh[{len}]")),
                            Err(_) => continue,
                        }
                    } else {
                        match t_f32::random_history(&mut rng, &[0.0, 1.0, 1e-4, 1e4, 0.1], &scale, 200, 1, &mut obs, &profile, &mut nviol) {
                            Some((t, m)) => {
                                let d = format!("history200[{}]", m.len());
                                (t, m, d)
                            }
                            None => continue,
                        }
                    };
                    if !tree.is_valid() {
                        continue;
                    }
                    let mut v = c10_f32(&tree, &model, &desc, tseed, &profile);
                    v["fresh"] = json!(fresh);
                    emit(&v);
                } else {
                    let scale = [1.0f64, 1e-4, 1e4];
                    let (tree, model, desc) = if fresh {
                        let len = 1 + rng.below(40) as usize;
                        let m: Vec<f64> = (0..len).map(|_| if rng.below(8) == 0 { 0.0 } else { scale[rng.below(3) as usize] * rng.unit() }).collect();
                        match WeightedTreeIndex::new(m.clone()) {
                            Ok(t) => (t, m, format!("fresh[{len}]")),
                            Err(_) => continue,
                        }
                    } else {
                        match t_f64::random_history(&mut rng, &[0.0, 1.0, 1e-4, 1e4, 0.1], &scale, 200, 1, &mut obs, &profile, &mut nviol) {
                            Some((t, m)) => {
                                let d = format!("history200[{}]", m.len());
                                (t, m, d)
                            }
                            None => continue,
                        }
                    };
                    if !tree.is_valid() {
                        continue;
                    }
                    let mut v = c10_f64(&tree, &model, &desc, tseed, &profile);
                    v["fresh"] = json!(fresh);
                    emit(&v);
                }
                flush();
            }
        }
        _ => {
            macro_rules! ints {
                ($m:ident, $W:ty, $scale:expr) => {{
                    for t in 0..trees {
                        let tseed = mix(&[seed, shard, t, 0xC10]);
                        let mut rng = Xo::new(tseed);
                        let fresh = t % 2 == 0;
                        let scale: Vec<$W> = $scale;
                        let (tree, model, desc) = if fresh {
                            let len = match rng.below(4) { 0 => 1 + rng.below(5), 1 => 1 + rng.below(70), 2 => 250 + rng.below(20), _ => 1 + rng.below(3000) } as usize;
                            let s = scale[rng.below(scale.len() as u64) as usize];
                            let per = ((s as f64) / (len as f64)).max(1.0);
                            let m: Vec<$W> = (0..len).map(|_| if rng.below(6) == 0 { 0 as $W } else { (per * rng.unit()) as $W }).collect();
                            match WeightedTreeIndex::new(m.clone()) {
                                Ok(t) => (t, m, format!("fresh[{len}]")),
                                Err(_) => continue,
                            }
                        } else {
                            let sc: Vec<$W> = scale.iter().map(|s| ((*s as f64) / 80.0).max(1.0) as $W).collect();
                            // near-MAX weights make pushes / updates fail with Overflow inside the history (128-bit types:
                            // the model has no wider accumulator, so they stay below 2^110)
                            let top: $W = if core::mem::size_of::<$W>() == 16 { <$W>::MAX.checked_shr(27).unwrap_or(<$W>::MAX) } else { <$W>::MAX };
                            let alpha_hist: Vec<$W> = if t % 4 == 1 { vec![0 as $W, 1 as $W] } else { vec![0 as $W, 1 as $W, top, top - (1 as $W), top / (2 as $W)] };
                            match $m::random_history(&mut rng, &alpha_hist, &sc, 300, 1, &mut obs, &profile, &mut nviol) {
                                Some((t, m)) => {
                                    let d = format!("history300[{}]", m.len());
                                    (t, m, d)
                                }
                                None => continue,
                            }
                        };
                        // every third tree is handed over through clone_from into a destination that held a shorter (or a
                        // longer) tree before: the state reached that way must be sampled like the source
                        let (tree, desc) = if t % 3 == 2 {
                            let keep = if t % 2 == 0 { model.len() / 2 } else { model.len() + 4 };
                            let dst_w: Vec<$W> = (0..keep).map(|_| 1 as $W).collect();
                            match guarded(|| {
                                let mut d = WeightedTreeIndex::<$W>::new(dst_w.clone()).ok()?;
                                d.clone_from(&tree);
                                Some(d)
                            }) {
                                Caught::Ok(Some(d)) => (d, format!("{desc} via clone_from into a tree of {keep}")),
                                _ => (tree, desc),
                            }
                        } else {
                            (tree, desc)
                        };
                        // empty / all-zero trees: try_sample must return InsufficientNonZero
                        if !tree.is_valid() {
                            let mut rng2 = Mon::new(Scripted::plain(tseed));
                            let r = guarded(|| tree.try_sample(&mut rng2));
                            let ok = matches!(r, Caught::Ok(Err(WErr::InsufficientNonZero)));
                            emit(&json!({"ev": "c10_invalid", "wt": stringify!($W), "tree": desc, "ok": ok, "profile": profile}));
                            if !ok {
                                emit(&json!({"ev": "viol", "wt": stringify!($W), "kind": "invalid_tree_sample", "tree": desc, "weights": format!("{model:?}"), "msg": "try_sample on an empty/all-zero tree did not return InsufficientNonZero", "profile": profile}));
                            }
                            continue;
                        }
                        let execs = $m::adversarial(&tree, &model, tseed, &desc, &profile, &mut nviol);
                        match $m::sample_counts(&tree, model.len(), n, tseed, 0) {
                            Ok((counts, words)) => {
                                // stage-2 material on the *same* tree (a state reached through a history cannot be rebuilt
                                // from its weights): 4n draws from the independent generator family
                                let (counts2, n2) = match $m::sample_counts(&tree, model.len(), 4 * n, tseed ^ 0x5EED, 1) {
                                    Ok((c2, _)) => (Some(c2), 4 * n),
                                    Err(_) => (None, 0),
                                };
                                emit(&json!({"ev": "c10_int", "wt": stringify!($W), "tree": desc, "fresh": fresh, "profile": profile, "seed": tseed, "n": n, "len": model.len(),
                                    "weights": model.iter().map(|w| w.to_string()).collect::<Vec<_>>(), "counts": counts, "words": words, "adv_execs": execs, "counts2": counts2, "n2": n2}))
                            }
                            Err(m) => emit(&json!({"ev": "viol", "wt": stringify!($W), "kind": "sample_panic", "tree": desc, "weights": format!("{model:?}"), "msg": m, "profile": profile,
                                "stream": {"seed": tseed, "generator": "xoshiro256++"}})),
                        }
                        flush();
                    }
                }};
            }
            match part {
                "u8" => ints!(t_u8, u8, vec![1, 20, 255]),
                "i8" => ints!(t_i8, i8, vec![1, 20, 127]),
                "u16" => ints!(t_u16, u16, vec![1, 300, u16::MAX]),
                "i16" => ints!(t_i16, i16, vec![1, 300, i16::MAX]),
                "u32" => ints!(t_u32, u32, vec![1, 1000, u32::MAX]),
                "i32" => ints!(t_i32, i32, vec![1, 1000, i32::MAX]),
                "u64" => ints!(t_u64, u64, vec![1, 1000, u64::MAX]),
                "i64" => ints!(t_i64, i64, vec![1, 1000, i64::MAX]),
                "usize" => ints!(t_usize, usize, vec![1, 1000, usize::MAX]),
                "u128" => ints!(t_u128, u128, vec![1, 1000, 1 << 120]),
                "i128" => ints!(t_i128, i128, vec![1, 1000, 1 << 120]),
                _ => panic!("unknown part {part}"),
            }
        }
    }
    emit(&json!({"ev": "c10_done", "part": part, "history_violations": nviol}));
    flush();
}

/// one stage-2 re-run for an integer tree given by explicit weights (as decimal strings)
pub fn run_c10_recount(job: &Value) {
    let wt = job["wt"].as_str().unwrap();
    let n = job["n"].as_u64().unwrap();
    let seed = job["seed"].as_u64().unwrap();
    let ws: Vec<String> = job["weights"].as_array().unwrap().iter().map(|x| x.as_str().unwrap().to_string()).collect();
    macro_rules! go {
        ($m:ident, $W:ty) => {{
            let model: Vec<$W> = ws.iter().map(|s| s.parse::<$W>().unwrap()).collect();
            let tree = WeightedTreeIndex::new(model.clone()).expect("weights");
            match $m::sample_counts(&tree, model.len(), n, seed, 1) {
                Ok((counts, words)) => emit(&json!({"ev": "recount", "counts": counts, "words": words, "n": n})),
                Err(m) => emit(&json!({"ev": "recount_panic", "msg": m})),
            }
        }};
    }
    match wt {
        "u8" => go!(t_u8, u8),
        "i8" => go!(t_i8, i8),
        "u16" => go!(t_u16, u16),
        "i16" => go!(t_i16, i16),
        "u32" => go!(t_u32, u32),
        "i32" => go!(t_i32, i32),
        "u64" => go!(t_u64, u64),
        "i64" => go!(t_i64, i64),
        "usize" => go!(t_usize, usize),
        "u128" => go!(t_u128, u128),
        "i128" => go!(t_i128, i128),
        _ => panic!("wt"),
    }
    flush();
}
