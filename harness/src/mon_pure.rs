//! C14 monitor: sampling is a pure function of (distribution value, RNG stream) — paired runs,
//! clone / rebuild, sample_iter, record -> replay out of an interleaved history, value unchanged,
//! threads sharing one &D (DESIGN.md §3.5, §5 C14).
use crate::common::*;
use crate::fam::*;
use crate::rng::*;
use crate::subject::{Subject, subject};
use serde_json::{Value, json};

fn srng(seed: u64) -> Mon<AnyWords> {
    Mon::new(AnyWords::S(Scripted::plain(seed))).budget(u64::MAX)
}

/// Decision boundaries of one sample() call as a function of the word at position `pos` (all other words
/// fixed): the smallest 53-bit pattern k whose call consumes a different number of words than k = 0.  For a
/// rejection sampler this is the acceptance threshold of the uniform drawn at `pos`, located exactly (53
/// bisection steps), so a constant that differs by 1e-8 moves it by ~10^8 patterns.  A pure sampler must give the
/// same boundaries whatever was sampled before, from whatever object, on this thread.
fn boundaries(s: &dyn Subject, seed: u64) -> Vec<Option<u64>> {
    let mut out = vec![];
    for pos in 0..4u64 {
        let count = |k: u64| -> Option<u64> {
            let mut r = Mon::new(AnyWords::S(Scripted::new(seed, pos, k << 11))).budget(10_000);
            match guarded(|| s.call_hash(&mut r)) {
                Caught::Ok(_) => Some(r.count),
                _ => None,
            }
        };
        let top = (1u64 << 53) - 1;
        let c0 = count(0);
        if c0.is_none() {
            out.push(None);
            continue;
        }
        // look for a pattern with a different word count among the extremes and a few interior points
        let probe = [top, top / 2, top / 4, 3 * (top / 4), top / 16, top - top / 16];
        let hi = probe.iter().copied().find(|&k| count(k) != c0);
        let Some(mut hi) = hi else {
            out.push(None);
            continue;
        };
        let mut lo = 0u64;
        while hi - lo > 1 {
            let mid = lo + (hi - lo) / 2;
            if count(mid) == c0 { lo = mid } else { hi = mid }
        }
        out.push(Some(hi));
    }
    out
}

struct Rep {
    case: Value,
    nviol: u64,
}
impl Rep {
    fn viol(&mut self, kind: &str, detail: Value) {
        self.nviol += 1;
        if self.nviol <= 3 {
            emit(&json!({"ev": "viol", "kind": kind, "case": self.case, "detail": detail}));
        }
    }
}

pub fn run(job: &Value) {
    let cases: Vec<Case> = job["cases"].as_array().expect("cases").iter().map(Case::from_json).collect();
    let seeds = job["seeds"].as_u64().unwrap_or(8);
    let hist_len = job["hist_len"].as_u64().unwrap_or(1000) as usize;
    let group = job["group"].as_u64().unwrap_or(4) as usize;
    let vseed = job["verif_seed"].as_u64().unwrap_or(0);
    let start = job["start"].as_u64().unwrap_or(0) as usize;
    BUDGET_MS.store(20_000, std::sync::atomic::Ordering::Relaxed);
    let mut subjects: Vec<(usize, Box<dyn Subject>)> = vec![];
    let mut first_boundaries: Vec<Vec<Option<u64>>> = vec![];
    for (idx, case) in cases.iter().enumerate() {
        if idx < start {
            continue;
        }
        emit(&json!({"ev": "begin", "case_idx": idx, "id": case.id}));
        set_ctx(json!({"case_idx": idx, "case": case.to_json(), "phase": "c14"}));
        tick();
        let s = match guarded(|| subject(case)) {
            Caught::Ok(Ok(s)) => s,
            _ => {
                emit(&json!({"ev": "ctor_err", "case_idx": idx, "case": case.to_json()}));
                continue;
            }
        };
        let mut rep = Rep { case: case.to_json(), nviol: 0 };
        let (mut calls, mut pairs) = (0u64, 0u64);
        let mut not_sync = 0u64;
        let dbg0 = s.debug();
        let full0 = s.debug_full();
        let snapshot = s.clone_box();
        let rebuilt = subject(case).expect("rebuild");
        let cloned = s.clone_box();
        for k in 0..seeds {
            let seed = mix(&[vseed, idx as u64, k, 0xC14]);
            // (a)+(b) same value / clone / rebuilt value on equal streams: results, word counts, RNG state
            let mut r1 = srng(seed);
            let mut r2 = srng(seed);
            let mut r3 = srng(seed);
            let mut r4 = srng(seed);
            let n = 200;
            for i in 0..n {
                tick();
                let out = guarded(|| (s.call_hash(&mut r1), s.call_hash(&mut r2), cloned.call_hash(&mut r3), rebuilt.call_hash(&mut r4)));
                calls += 4;
                pairs += 3;
                match out {
                    Caught::Ok((a, b, c, d)) => {
                        if a != b || r1.count != r2.count {
                            rep.viol("rerun_differs", json!({"seed": seed, "call": i, "hashes": [hex64(a), hex64(b)], "words": [r1.count, r2.count]}));
                            break;
                        }
                        if a != c || r1.count != r3.count {
                            rep.viol("clone_differs", json!({"seed": seed, "call": i, "hashes": [hex64(a), hex64(c)], "words": [r1.count, r3.count]}));
                            break;
                        }
                        if a != d || r1.count != r4.count {
                            rep.viol("rebuilt_value_differs", json!({"seed": seed, "call": i, "hashes": [hex64(a), hex64(d)], "words": [r1.count, r4.count]}));
                            break;
                        }
                    }
                    _ => break, // panics are C03's business
                }
            }
            // RNG left in the identical state: next 4 words agree
            use rand::Rng;
            let t1: Vec<u64> = (0..4).map(|_| r1.next_u64()).collect();
            let t2: Vec<u64> = (0..4).map(|_| r3.next_u64()).collect();
            if t1 != t2 {
                rep.viol("rng_state_differs", json!({"seed": seed}));
            }
            // (c) sample_iter vs repeated sample
            let mut ra = srng(seed ^ 0x17);
            let mut rb = srng(seed ^ 0x17);
            if let Caught::Ok(Some(hs)) = guarded(|| s.iter_hashes(&mut ra, 64)) {
                let single: Vec<u64> = match guarded(|| (0..64).map(|_| s.call_hash(&mut rb)).collect::<Vec<u64>>()) {
                    Caught::Ok(v) => v,
                    _ => vec![],
                };
                calls += 128;
                pairs += 64;
                if !single.is_empty() && (hs != single || ra.count != rb.count) {
                    rep.viol("sample_iter_differs", json!({"seed": seed, "words": [ra.count, rb.count]}));
                }
            }
        }
        // (e) value unchanged by sampling: PartialEq and Debug
        {
            let mut r = srng(mix(&[vseed, idx as u64, 0xE]));
            let _ = guarded(|| {
                for _ in 0..10_000 {
                    s.call_hash(&mut r);
                }
            });
            calls += 10_000;
            tick();
            if s.debug() != dbg0 || s.debug_full() != full0 {
                rep.viol("debug_changed_by_sampling", json!({"before": full0.chars().take(400).collect::<String>(), "after": s.debug_full().chars().take(400).collect::<String>()}));
            }
            // clones: an unsampled clone, a sampled clone and a clone taken after sampling all print like the
            // original, and sampling a fresh clone does not change what it prints
            let late = s.clone_box();
            for (name, c) in [("clone taken before sampling, never sampled", &snapshot), ("clone sampled 200 x seeds times", &cloned), ("clone taken after sampling", &late)] {
                if c.debug_full() != full0 {
                    rep.viol("clone_prints_differently", json!({"which": name, "original": full0.chars().take(400).collect::<String>(), "clone": c.debug_full().chars().take(400).collect::<String>()}));
                    break;
                }
                if let Some(false) = s.eq_dyn(c.as_ref()) {
                    rep.viol("clone_not_equal", json!({"which": name}));
                    break;
                }
            }
            {
                let before = late.debug_full();
                let mut r = srng(mix(&[vseed, idx as u64, 0xE2]));
                let _ = guarded(|| {
                    for _ in 0..100 {
                        late.call_hash(&mut r);
                    }
                });
                calls += 100;
                if late.debug_full() != before {
                    rep.viol("debug_changed_by_sampling", json!({"which": "clone", "before": before.chars().take(400).collect::<String>(), "after": late.debug_full().chars().take(400).collect::<String>()}));
                }
            }
            // the same parameters through other input representations: equal value, equal print, equal samples
            // clone_from into destinations that held other values: equal value, equal print, equal samples
            if let Caught::Ok(vs) = guarded(|| s.clone_from_variants()) {
                for (name, c) in vs {
                    let mut ra = srng(mix(&[vseed, idx as u64, 0xCF]));
                    let mut rb = srng(mix(&[vseed, idx as u64, 0xCF]));
                    let ha = guarded(|| (0..64).map(|_| c.call_hash(&mut ra)).collect::<Vec<u64>>());
                    let hb = guarded(|| (0..64).map(|_| rebuilt.call_hash(&mut rb)).collect::<Vec<u64>>());
                    calls += 128;
                    pairs += 64;
                    let same_samples = match (ha, hb) {
                        (Caught::Ok(a), Caught::Ok(b)) => a == b && ra.count == rb.count,
                        (Caught::Ok(_), _) | (_, Caught::Ok(_)) => false,
                        _ => true,
                    };
                    let same_print = c.debug_full() == s.debug_full();
                    let same_value = s.eq_dyn(c.as_ref()) != Some(false);
                    if !(same_samples && same_print && same_value) {
                        rep.viol("clone_from_differs", json!({"which": name, "same_samples": same_samples, "same_print": same_print, "same_value": same_value}));
                        break;
                    }
                }
            }
            let alts = match guarded(|| s.alt_builds()) {
                Caught::Ok(v) => v,
                Caught::Panic(m) => {
                    rep.viol("alt_construction_panicked", json!({"msg": m}));
                    vec![]
                }
                _ => vec![],
            };
            for (name, alt) in alts {
                let mut ra = srng(mix(&[vseed, idx as u64, 0xA17]));
                let mut rb = srng(mix(&[vseed, idx as u64, 0xA17]));
                let ha = guarded(|| (0..64).map(|_| alt.call_hash(&mut ra)).collect::<Vec<u64>>());
                let hb = guarded(|| (0..64).map(|_| rebuilt.call_hash(&mut rb)).collect::<Vec<u64>>());
                calls += 128;
                pairs += 64;
                let same_samples = match (ha, hb) {
                    (Caught::Ok(a), Caught::Ok(b)) => a == b && ra.count == rb.count,
                    _ => true,
                };
                let same_print = alt.debug_full() == full0;
                let same_value = s.eq_dyn(alt.as_ref()) != Some(false);
                if !(same_samples && same_print && same_value) {
                    rep.viol("alt_construction_differs", json!({"route": name, "same_samples": same_samples, "same_print": same_print, "same_value": same_value}));
                    break;
                }
            }
            if let Some(false) = s.eq_dyn(snapshot.as_ref()) {
                // NaN parameters make == false legitimately; none of the envelope cases has NaN fields
                rep.viol("value_not_equal_after_sampling", json!({"debug": s.debug()}));
            }
        }
        // (f) threads: 8 threads share &D with private RNGs; compare with single-threaded runs
        {
            let sref: &dyn Subject = s.as_ref();
            let tseeds: Vec<u64> = (0..8).map(|t| mix(&[vseed, idx as u64, t, 0xF])).collect();
            // fresh clones per stream for the single-threaded reference (a subject may keep a scratch buffer)
            let single: Vec<Vec<u64>> = tseeds
                .iter()
                .map(|&sd| {
                    let mut r = srng(sd);
                    match guarded(|| (0..300).map(|_| sref.call_hash(&mut r)).collect::<Vec<u64>>()) {
                        Caught::Ok(v) => v,
                        _ => vec![],
                    }
                })
                .collect();
            match sref.threaded_hashes(&tseeds, 300) {
                Some(threaded) => {
                    calls += 4800;
                    pairs += 2400;
                    if single != threaded {
                        rep.viol("threaded_differs", json!({}));
                    }
                }
                None => {
                    not_sync += 1;
                }
            }
        }
        let b0 = boundaries(s.as_ref(), mix(&[vseed, idx as u64, 0xB0]));
        first_boundaries.push(b0);
        emit(&json!({"ev": "case", "case_idx": idx, "case": case.to_json(), "calls": calls, "pairs": pairs, "viol": rep.nviol, "not_sync": not_sync, "sig": signature(&dbg0)}));
        flush();
        subjects.push((idx, s));
    }
    // (g) concurrent construction: 8 threads build neighbouring cases alternately at the same moment; every value
    // built must print and sample exactly like the single-threaded reference built from equal parameters
    {
        let mut built = 0u64;
        let mut cviol = 0u64;
        let idxs: Vec<usize> = subjects.iter().map(|x| x.0).collect();
        for pair in idxs.chunks(2) {
            let cs: Vec<&Case> = pair.iter().map(|&i| &cases[i]).collect();
            let refs: Vec<(String, Vec<u64>)> = cs
                .iter()
                .map(|c| {
                    let s = subject(c).expect("rebuild");
                    let mut r = srng(7);
                    let hs = match guarded(|| (0..16).map(|_| s.call_hash(&mut r)).collect::<Vec<u64>>()) {
                        Caught::Ok(v) => v,
                        _ => vec![],
                    };
                    (s.debug(), hs)
                })
                .collect();
            tick();
            let barrier = std::sync::Barrier::new(8);
            let results: Vec<Vec<(usize, String, Vec<u64>)>> = std::thread::scope(|sc| {
                let hs: Vec<_> = (0..8usize)
                    .map(|t| {
                        let cs = &cs;
                        let barrier = &barrier;
                        sc.spawn(move || {
                            let mut out = vec![];
                            barrier.wait();
                            for round in 0..6usize {
                                let which = (t + round) % cs.len();
                                let r = std::panic::catch_unwind(std::panic::AssertUnwindSafe(|| {
                                    let s = subject(cs[which]).ok()?;
                                    let mut r = srng(7);
                                    let hs: Vec<u64> = (0..16).map(|_| s.call_hash(&mut r)).collect();
                                    Some((s.debug(), hs))
                                }));
                                if let Ok(Some((d, hs))) = r {
                                    out.push((which, d, hs));
                                }
                            }
                            out
                        })
                    })
                    .collect();
                hs.into_iter().map(|h| h.join().unwrap_or_default()).collect()
            });
            for thread_out in results {
                for (which, d, hs) in thread_out {
                    built += 1;
                    if !refs[which].1.is_empty() && (d != refs[which].0 || hs != refs[which].1) {
                        cviol += 1;
                        if cviol <= 3 {
                            emit(&json!({"ev": "viol", "kind": "concurrent_construction_differs", "case": cs[which].to_json(),
                                "detail": {"reference_debug": refs[which].0.chars().take(300).collect::<String>(), "built_debug": d.chars().take(300).collect::<String>(), "samples_equal": hs == refs[which].1}}));
                        }
                    }
                }
            }
        }
        emit(&json!({"ev": "concurrent", "values_built_concurrently": built, "viol": cviol}));
    }
    // (d) interleaved histories: groups of objects share one recording RNG; every call is then
    // replayed alone from its recorded words and must give the same result and consume exactly them
    let mut replayed = 0u64;
    let mut hist_n = 0u64;
    let mut nviol = 0u64;
    let mut g = 0;
    while g < subjects.len() {
        let grp = &subjects[g..(g + group).min(subjects.len())];
        g += group;
        for k in 0..seeds {
            let seed = mix(&[vseed, g as u64, k, 0xD]);
            let mut order = Xo::new(seed ^ 0x99);
            let mut rng = Mon::new(AnyWords::S(Scripted::plain(seed))).recording();
            let mut log: Vec<(usize, usize, usize, u64)> = vec![]; // (member, word_start, word_end, hash)
            let mut ok = true;
            for _ in 0..hist_len {
                tick();
                let m = order.below(grp.len() as u64) as usize;
                let w0 = rng.rec.as_ref().unwrap().len();
                match guarded(|| grp[m].1.call_hash(&mut rng)) {
                    Caught::Ok(h) => log.push((m, w0, rng.rec.as_ref().unwrap().len(), h)),
                    _ => {
                        ok = false;
                        break;
                    }
                }
            }
            if !ok {
                continue;
            }
            hist_n += 1;
            let words = rng.rec.take().unwrap();
            // replay a spread of the calls (all of them for short histories)
            let step = (log.len() / 400).max(1);
            for (j, &(m, a, b, h)) in log.iter().enumerate().step_by(step) {
                let mut rr = Mon::new(AnyWords::R(Replay { words: words[a..b].to_vec(), idx: 0 }));
                replayed += 1;
                let res = guarded(|| grp[m].1.call_hash(&mut rr));
                let bad = match res {
                    Caught::Ok(h2) => {
                        if h2 != h {
                            Some("result differs from the call inside the history".to_string())
                        } else if rr.count as usize != b - a {
                            Some(format!("replay consumed {} words, the history call {}", rr.count, b - a))
                        } else {
                            None
                        }
                    }
                    Caught::ReplayExhausted => Some(format!("replay asked for more than the {} recorded words", b - a)),
                    Caught::Panic(mm) => Some(format!("replay panicked: {mm}")),
                    _ => None,
                };
                if let Some(msg) = bad {
                    nviol += 1;
                    if nviol <= 3 {
                        emit(&json!({"ev": "viol", "kind": "history_dependence", "case": cases[grp[m].0].to_json(),
                            "detail": {"msg": msg, "history_seed": seed, "call_index": j, "members": grp.iter().map(|x| cases[x.0].id.clone()).collect::<Vec<_>>(), "words": words[a..b].iter().map(|w| hex64(*w)).collect::<Vec<_>>()}}));
                    }
                }
            }
        }
    }
    // (h') decision boundaries of X immediately after one draw from each other member Y of its group (neighbouring
    // cases: same family, equal parameters in the other float type, ...): state leaking from Y's call into X's
    let mut pviol = 0u64;
    let mut pchecked = 0u64;
    for (gi, grp) in subjects.chunks(group).enumerate() {
        for (xi, (xidx, x)) in grp.iter().enumerate() {
            let xj = gi * group + xi;
            for (yi, (_, y)) in grp.iter().enumerate() {
                if yi == xi {
                    continue;
                }
                tick();
                let mut r = srng(mix(&[vseed, xj as u64, yi as u64, 0xB1]));
                let _ = guarded(|| y.call_hash(&mut r));
                let b = boundaries(x.as_ref(), mix(&[vseed, *xidx as u64, 0xB0]));
                pchecked += 1;
                if b != first_boundaries[xj] {
                    pviol += 1;
                    if pviol <= 3 {
                        emit(&json!({"ev": "viol", "kind": "decision_boundary_moved", "case": cases[*xidx].to_json(),
                            "detail": {"first_visit": format!("{:?}", first_boundaries[xj]), "right_after_one_draw_from": cases[grp[yi].0].id, "now": format!("{b:?}"),
                                       "meaning": "smallest 53-bit pattern at stream positions 0..3 that changes the number of words one sample() call consumes"}}));
                    }
                }
            }
        }
    }
    emit(&json!({"ev": "boundaries_after_neighbour", "checked": pchecked, "viol": pviol}));
    // (h) decision boundaries again, now that every object of this process has been sampled in every way above
    let mut bviol = 0u64;
    let mut bfound = 0u64;
    for (j, (idx, s)) in subjects.iter().enumerate() {
        tick();
        let b1 = boundaries(s.as_ref(), mix(&[vseed, *idx as u64, 0xB0]));
        bfound += b1.iter().filter(|b| b.is_some()).count() as u64;
        if b1 != first_boundaries[j] {
            bviol += 1;
            if bviol <= 3 {
                emit(&json!({"ev": "viol", "kind": "decision_boundary_moved", "case": cases[*idx].to_json(),
                    "detail": {"first_visit": format!("{:?}", first_boundaries[j]), "after_all_other_sampling": format!("{b1:?}"),
                               "meaning": "smallest 53-bit pattern at stream positions 0..3 that changes the number of words one sample() call consumes"}}));
            }
        }
    }
    emit(&json!({"ev": "boundaries", "located": bfound, "viol": bviol}));
    emit(&json!({"ev": "histories", "histories": hist_n, "history_len": hist_len, "replayed_calls": replayed, "viol": nviol}));
    emit(&json!({"ev": "done"}));
    flush();
}
