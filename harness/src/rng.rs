//! Instrumentation RNGs (DESIGN.md §2.2).  One *word* = one call of `next_u64` or `next_u32`;
//! `next_u32` returns the HIGH 32 bits of the next 64-bit word.
use rand::rand_core::{Infallible, TryRng};

#[inline]
pub fn splitmix64(state: &mut u64) -> u64 {
    *state = state.wrapping_add(0x9E37_79B9_7F4A_7C15);
    let mut z = *state;
    z = (z ^ (z >> 30)).wrapping_mul(0xBF58_476D_1CE4_E5B9);
    z = (z ^ (z >> 27)).wrapping_mul(0x94D0_49BB_1331_11EB);
    z ^ (z >> 31)
}

/// hash of several integers -> seed
pub fn mix(parts: &[u64]) -> u64 {
    let mut s = 0x1234_5678_9ABC_DEF0u64;
    let mut out = 0;
    for &p in parts {
        s ^= p.wrapping_mul(0xD6E8_FEB8_6659_FD93);
        out = splitmix64(&mut s);
    }
    out
}

pub trait Words {
    fn word(&mut self) -> u64;
}

/// xoshiro256++
#[derive(Clone, Debug)]
pub struct Xo {
    s: [u64; 4],
}
impl Xo {
    pub fn new(seed: u64) -> Self {
        let mut st = seed;
        let s = [
            splitmix64(&mut st),
            splitmix64(&mut st),
            splitmix64(&mut st),
            splitmix64(&mut st),
        ];
        Xo { s }
    }
    #[inline]
    pub fn next(&mut self) -> u64 {
        let s = &mut self.s;
        let result = s[0].wrapping_add(s[3]).rotate_left(23).wrapping_add(s[0]);
        let t = s[1] << 17;
        s[2] ^= s[0];
        s[3] ^= s[1];
        s[1] ^= s[2];
        s[0] ^= s[3];
        s[2] ^= t;
        s[3] = s[3].rotate_left(45);
        result
    }
    pub fn below(&mut self, n: u64) -> u64 {
        // unbiased enough for workload generation (n << 2^64)
        ((self.next() as u128 * n as u128) >> 64) as u64
    }
    pub fn unit(&mut self) -> f64 {
        (self.next() >> 11) as f64 / (1u64 << 53) as f64
    }
}
impl Words for Xo {
    #[inline]
    fn word(&mut self) -> u64 {
        self.next()
    }
}

/// ChaCha12 (rand's StdRng), the independent generator family of stage 2.
pub struct Cha(pub rand::rngs::StdRng);
impl Cha {
    pub fn new(seed: u64) -> Self {
        use rand::SeedableRng;
        Cha(rand::rngs::StdRng::seed_from_u64(seed))
    }
}
impl Words for Cha {
    #[inline]
    fn word(&mut self) -> u64 {
        use rand::Rng;
        self.0.next_u64()
    }
}

/// A stream with the word at one position replaced (positions count from 0 since `reset`).
#[derive(Clone, Debug)]
pub struct Scripted {
    pub base: Xo,
    pub idx: u64,
    pub pos: u64,
    pub word: u64,
    pub pos2: u64,
    pub word2: u64,
}
impl Scripted {
    pub fn new(seed: u64, pos: u64, word: u64) -> Self {
        Scripted { base: Xo::new(seed), idx: 0, pos, word, pos2: u64::MAX, word2: 0 }
    }
    pub fn plain(seed: u64) -> Self {
        Scripted::new(seed, u64::MAX, 0)
    }
}
impl Words for Scripted {
    #[inline]
    fn word(&mut self) -> u64 {
        let b = self.base.next();
        let i = self.idx;
        self.idx += 1;
        if i == self.pos {
            self.word
        } else if i == self.pos2 {
            self.word2
        } else {
            b
        }
    }
}

/// Exactly a recorded trace; unwinds with `ReplayExhausted` if asked for one word more.
#[derive(Clone, Debug)]
pub struct Replay {
    pub words: Vec<u64>,
    pub idx: usize,
}
#[derive(Debug)]
pub struct ReplayExhausted;
impl Words for Replay {
    #[inline]
    fn word(&mut self) -> u64 {
        if self.idx >= self.words.len() {
            std::panic::panic_any(ReplayExhausted);
        }
        let w = self.words[self.idx];
        self.idx += 1;
        w
    }
}

/// Either a scripted PRNG stream or an exact replay of recorded words.
#[derive(Clone, Debug)]
pub enum AnyWords {
    S(Scripted),
    R(Replay),
}
impl Words for AnyWords {
    #[inline]
    fn word(&mut self) -> u64 {
        match self {
            AnyWords::S(s) => s.word(),
            AnyWords::R(r) => r.word(),
        }
    }
}
impl AnyWords {
    /// stream position (words served so far)
    pub fn idx(&self) -> u64 {
        match self {
            AnyWords::S(s) => s.idx,
            AnyWords::R(r) => r.idx as u64,
        }
    }
}

/// Typed payload: a `sample()` call exceeded its word budget.
#[derive(Debug)]
pub struct WordBudget(pub u64);

/// Counting / recording / budgeted wrapper; this is the type that implements `TryRng`.
pub struct Mon<W: Words> {
    pub inner: W,
    pub count: u64,
    pub budget: u64,
    pub rec: Option<Vec<u64>>,
    pub fill_calls: u64,
}
impl<W: Words> Mon<W> {
    pub fn new(inner: W) -> Self {
        Mon { inner, count: 0, budget: u64::MAX, rec: None, fill_calls: 0 }
    }
    pub fn budget(mut self, b: u64) -> Self {
        self.budget = b;
        self
    }
    pub fn recording(mut self) -> Self {
        self.rec = Some(Vec::new());
        self
    }
    #[inline]
    fn w(&mut self) -> u64 {
        self.count += 1;
        if self.count > self.budget {
            std::panic::panic_any(WordBudget(self.count));
        }
        let w = self.inner.word();
        if let Some(r) = self.rec.as_mut() {
            r.push(w);
        }
        w
    }
}
impl<W: Words> TryRng for Mon<W> {
    type Error = Infallible;
    #[inline]
    fn try_next_u32(&mut self) -> Result<u32, Infallible> {
        Ok((self.w() >> 32) as u32)
    }
    #[inline]
    fn try_next_u64(&mut self) -> Result<u64, Infallible> {
        Ok(self.w())
    }
    fn try_fill_bytes(&mut self, dst: &mut [u8]) -> Result<(), Infallible> {
        self.fill_calls += 1;
        for chunk in dst.chunks_mut(8) {
            let b = self.w().to_le_bytes();
            chunk.copy_from_slice(&b[..chunk.len()]);
        }
        Ok(())
    }
}

/// Uncounted fast adapter for bulk law monitors.
pub struct Fast<W: Words>(pub W, pub u64);
impl<W: Words> TryRng for Fast<W> {
    type Error = Infallible;
    #[inline]
    fn try_next_u32(&mut self) -> Result<u32, Infallible> {
        self.1 += 1;
        Ok((self.0.word() >> 32) as u32)
    }
    #[inline]
    fn try_next_u64(&mut self) -> Result<u64, Infallible> {
        self.1 += 1;
        Ok(self.0.word())
    }
    fn try_fill_bytes(&mut self, dst: &mut [u8]) -> Result<(), Infallible> {
        for chunk in dst.chunks_mut(8) {
            self.1 += 1;
            let b = self.0.word().to_le_bytes();
            chunk.copy_from_slice(&b[..chunk.len()]);
        }
        Ok(())
    }
}

/// The adversarial word lattice of DESIGN.md Appendix B, as (class name, word).
pub fn lattice() -> Vec<(String, u64)> {
    let mut v: Vec<(String, u64)> = Vec::new();
    // f64 53-bit draws (StandardUniform / OpenClosed01): w >> 11
    let p53: [(&str, u64); 8] = [
        ("0", 0),
        ("1", 1),
        ("2", 2),
        ("half-", (1 << 52) - 1),
        ("half", 1 << 52),
        ("half+", (1 << 52) + 1),
        ("max-1", (1 << 53) - 2),
        ("max", (1 << 53) - 1),
    ];
    for (n, b) in p53 {
        v.push((format!("u53:{n}:lo0"), b << 11));
        v.push((format!("u53:{n}:lo1"), (b << 11) | 0x7ff));
    }
    // f64 52-bit draws (Open01 / Uniform<f64>): w >> 12
    let p52: [(&str, u64); 8] = [
        ("0", 0),
        ("1", 1),
        ("2", 2),
        ("half-", (1 << 51) - 1),
        ("half", 1 << 51),
        ("half+", (1 << 51) + 1),
        ("max-1", (1 << 52) - 2),
        ("max", (1 << 52) - 1),
    ];
    for (n, b) in p52 {
        v.push((format!("u52:{n}:lo0"), b << 12));
        v.push((format!("u52:{n}:lo1"), (b << 12) | 0xfff));
    }
    // f32 draws see the high half: >> 8 (24 bits) and >> 9 (23 bits) of the u32
    let p24: [(&str, u64); 8] = [
        ("0", 0),
        ("1", 1),
        ("half-", (1 << 23) - 1),
        ("half", 1 << 23),
        ("half+", (1 << 23) + 1),
        ("q", 1 << 22),
        ("max-1", (1 << 24) - 2),
        ("max", (1 << 24) - 1),
    ];
    for (n, b) in p24 {
        v.push((format!("u24:{n}:lo0"), b << 40));
        v.push((format!("u24:{n}:lo1"), (b << 40) | 0xff_ffff_ffff));
    }
    let p23: [(&str, u64); 7] = [
        ("0", 0),
        ("1", 1),
        ("half-", (1 << 22) - 1),
        ("half", 1 << 22),
        ("half+", (1 << 22) + 1),
        ("max-1", (1 << 23) - 2),
        ("max", (1 << 23) - 1),
    ];
    for (n, b) in p23 {
        v.push((format!("u23:{n}:lo0"), b << 41));
        v.push((format!("u23:{n}:lo1"), (b << 41) | 0x1ff_ffff_ffff));
    }
    // ziggurat: layer index in low 8 bits, u in bits 12..63
    let layers = [0u64, 1, 2, 127, 128, 254, 255];
    let us: [(&str, u64); 7] = [
        ("0", 0),
        ("1", 1),
        ("mid-", (1 << 51) - 1),
        ("mid", 1 << 51),
        ("mid+", (1 << 51) + 1),
        ("max-1", (1 << 52) - 2),
        ("max", (1 << 52) - 1),
    ];
    for l in layers {
        for (n, u) in us {
            v.push((format!("zig:l{l}:u{n}"), (u << 12) | l));
            v.push((format!("zig:l{l}:u{n}:f"), (u << 12) | 0xf00 | l));
        }
    }
    // integer consumers
    let ints: [u64; 19] = [
        0,
        1,
        2,
        3,
        (1 << 31) - 1,
        1 << 31,
        (1 << 31) + 1,
        (1 << 32) - 1,
        1 << 32,
        (1 << 32) + 1,
        (1 << 63) - 1,
        1 << 63,
        (1 << 63) + 1,
        u64::MAX - 1,
        u64::MAX,
        0xFFFF_FFFF_0000_0000,
        0x0000_0000_FFFF_FFFF,
        0x5555_5555_5555_5555,
        0xAAAA_AAAA_AAAA_AAAA,
    ];
    for w in ints {
        v.push((format!("int:{w:#x}"), w));
    }
    // de-duplicate by word, keeping the first name
    let mut seen = std::collections::HashSet::new();
    v.retain(|(_, w)| seen.insert(*w));
    v
}
