//! C11 (Dirichlet) and C12 (unit geometry): per-sample structural assertions + cell counters for
//! the statistical law monitor.
use crate::common::*;
use crate::fam::*;
use crate::rng::*;
use rand::Rng;
use rand_distr::multi::{Dirichlet, MultiDistribution};
use rand_distr::*;
use serde_json::{Value, json};

struct Stat {
    kind: u8, // 0 = marginal x_i ; 1 = ratio x_i / (x_i + x_j)
    i: usize,
    j: usize,
    thr: Vec<f64>,
    cells: Vec<u64>,
    skipped: u64,
}

macro_rules! dirichlet_run {
    ($fname:ident, $F:ty) => {
        fn $fname<R: Rng>(alpha: &[f64], stats: &mut [Stat], n: u64, rng: &mut R, viol: &mut Vec<Value>, counters: &mut [u64; 6]) {
            let a: Vec<$F> = alpha.iter().map(|x| *x as $F).collect();
            let d = Dirichlet::new(&a).expect("dirichlet ctor");
            let len = a.len();
            let tol = (len as f64 + 4.0) * <$F>::EPSILON as f64;
            for it in 0..n {
                if it & 0xffff == 0 {
                    tick();
                }
                let x: Vec<$F> = d.sample(rng);
                counters[0] += 1;
                if x.len() != len {
                    counters[1] += 1;
                    if viol.len() < 3 {
                        viol.push(json!({"kind": "wrong_length", "len": x.len()}));
                    }
                    continue;
                }
                let mut sum = 0.0f64;
                let mut bad = false;
                for &c in &x {
                    if c.is_nan() {
                        counters[2] += 1;
                        bad = true;
                        if viol.len() < 3 {
                            viol.push(json!({"kind": "nan_component", "draw": it, "sample": x.iter().map(|v| format!("{v:e}")).collect::<Vec<_>>()}));
                        }
                        break;
                    }
                    if !(0.0..=1.0).contains(&c) {
                        counters[3] += 1;
                        bad = true;
                        if viol.len() < 3 {
                            viol.push(json!({"kind": "component_outside_unit_interval", "draw": it, "value": format!("{c:e}")}));
                        }
                        break;
                    }
                    sum += c as f64;
                }
                if bad {
                    continue;
                }
                if (sum - 1.0).abs() > tol {
                    counters[4] += 1;
                    if viol.len() < 3 {
                        viol.push(json!({"kind": "sum_not_one", "draw": it, "sum": format!("{sum:e}"), "tol": tol}));
                    }
                }
                for s in stats.iter_mut() {
                    let v = if s.kind == 0 {
                        x[s.i] as f64
                    } else {
                        let (p, q) = (x[s.i] as f64, x[s.j] as f64);
                        if p + q == 0.0 {
                            s.skipped += 1;
                            continue;
                        }
                        // the ratio in the sampler's own float type
                        (x[s.i] / (x[s.i] + x[s.j])) as f64
                    };
                    let c = s.thr.partition_point(|t| *t < v);
                    s.cells[c] += 1;
                }
            }
        }
    };
}
dirichlet_run!(dir_run32, f32);
dirichlet_run!(dir_run64, f64);

pub fn run_c11(job: &Value) {
    let cases = job["cases"].as_array().expect("cases");
    let start = job["start"].as_u64().unwrap_or(0) as usize;
    BUDGET_MS.store(30_000, std::sync::atomic::Ordering::Relaxed);
    for (idx, cj) in cases.iter().enumerate() {
        if idx < start {
            continue;
        }
        let case = Case::from_json(cj);
        emit(&json!({"ev": "begin", "case_idx": idx, "id": case.id}));
        flush();
        set_ctx(json!({"case_idx": idx, "case": case.to_json(), "phase": "c11"}));
        let alpha = case.pf();
        let n = cj["n"].as_u64().expect("n");
        let seed = cj["seed"].as_u64().expect("seed");
        let generator = cj["gen"].as_u64().unwrap_or(0);
        let mut stats: Vec<Stat> = cj["stats"]
            .as_array()
            .expect("stats")
            .iter()
            .map(|s| {
                let thr: Vec<f64> = s["thr"].as_array().unwrap().iter().map(|t| P::dec(t.as_str().unwrap()).f()).collect();
                Stat { kind: if s["kind"] == "marg" { 0 } else { 1 }, i: s["i"].as_u64().unwrap() as usize, j: s["j"].as_u64().unwrap_or(0) as usize, cells: vec![0; thr.len() + 1], thr, skipped: 0 }
            })
            .collect();
        let mut viol = vec![];
        let mut counters = [0u64; 6];
        let r = guarded(|| {
            if generator == 0 {
                let mut rng = Fast(Xo::new(seed), 0);
                if case.ty == Ty::F32 { dir_run32(&alpha, &mut stats, n, &mut rng, &mut viol, &mut counters) } else { dir_run64(&alpha, &mut stats, n, &mut rng, &mut viol, &mut counters) }
                rng.1
            } else {
                let mut rng = Fast(Cha::new(seed), 0);
                if case.ty == Ty::F32 { dir_run32(&alpha, &mut stats, n, &mut rng, &mut viol, &mut counters) } else { dir_run64(&alpha, &mut stats, n, &mut rng, &mut viol, &mut counters) }
                rng.1
            }
        });
        let words = match r {
            Caught::Ok(w) => w,
            Caught::Panic(m) => {
                emit(&json!({"ev": "c11_panic", "id": case.id, "key": cj["key"], "msg": m, "seed": seed}));
                continue;
            }
            _ => 0,
        };
        // sample_to_slice vs Vec sample on clones of one stream
        let mut pair_bad = 0u64;
        let mut pairs = 0u64;
        macro_rules! pairing {
            ($F:ty) => {{
                let a: Vec<$F> = alpha.iter().map(|x| *x as $F).collect();
                let d = Dirichlet::new(&a).unwrap();
                let mut r1 = Mon::new(Scripted::plain(seed ^ 0x51));
                let mut r2 = Mon::new(Scripted::plain(seed ^ 0x51));
                let mut buf = vec![0 as $F; a.len()];
                for _ in 0..2000 {
                    let v: Vec<$F> = d.sample(&mut r1);
                    d.sample_to_slice(&mut r2, &mut buf);
                    pairs += 1;
                    if v.iter().zip(buf.iter()).any(|(p, q)| p.to_bits() != q.to_bits()) || r1.count != r2.count {
                        pair_bad += 1;
                    }
                }
                (d.sample_len(), if format!("{d:?}").contains("FromBeta") { "FromBeta" } else { "FromGamma" })
            }};
        }
        let (slen, repr) = if case.ty == Ty::F32 { pairing!(f32) } else { pairing!(f64) };
        emit(&json!({"ev": "c11", "id": case.id, "key": cj["key"], "n": n, "seed": seed, "gen": generator, "words": words, "repr": repr, "sample_len": slen,
            "samples": counters[0], "wrong_length": counters[1], "nan": counters[2], "outside": counters[3], "sum_not_one": counters[4],
            "viol": viol, "pairs": pairs, "pair_bad": pair_bad,
            "stats": stats.iter().map(|s| json!({"kind": if s.kind == 0 { "marg" } else { "ratio" }, "i": s.i, "j": s.j, "cells": s.cells, "skipped": s.skipped})).collect::<Vec<_>>()}));
        flush();
    }
    emit(&json!({"ev": "done"}));
    flush();
}

// ------------------------------------------------------------------------------------------ C12

struct Geo {
    samples: u64,
    nan: u64,
    norm_bad: u64,
    first_bad: Option<Value>,
    cells: Vec<u64>,
    /// disc / ball: counts of u <= t (centre) and u > 1 - t (shell) for u = r^2 resp. r^3, which is uniform on [0,1]
    radial: Vec<u64>,
    max_norm_err: f64,
}

pub const RADIAL_INNER: [f64; 5] = [1.1920928955078125e-7, 1e-6, 1e-5, 1e-4, 1e-3];
pub const RADIAL_OUTER: [f64; 3] = [1e-5, 1e-4, 1e-3];

fn radial_count(r: &mut [u64], u: f64) {
    for (i, t) in RADIAL_INNER.iter().enumerate() {
        if u <= *t {
            r[i] += 1;
        }
    }
    for (i, t) in RADIAL_OUTER.iter().enumerate() {
        if u > 1.0 - *t {
            r[RADIAL_INNER.len() + i] += 1;
        }
    }
}

fn cell(u: f64, k: usize) -> usize {
    // u in [0,1) -> 0..k-1 (clamped)
    let c = (u * k as f64).floor();
    if c < 0.0 { 0 } else if c as usize >= k { k - 1 } else { c as usize }
}

macro_rules! geo_run {
    ($fname:ident, $F:ty) => {
        fn $fname<R: Rng>(which: &str, n: u64, rng: &mut R) -> Geo {
            let eps = <$F>::EPSILON as f64;
            let ncell = match which {
                "unit_circle" => 64,
                "unit_disc" => 256,
                "unit_sphere" => 256,
                _ => 512,
            };
            let mut g = Geo { samples: 0, nan: 0, norm_bad: 0, first_bad: None, cells: vec![0; ncell], radial: vec![0; 8], max_norm_err: 0.0 };
            let tau = core::f64::consts::TAU;
            for it in 0..n {
                if it & 0xfffff == 0 {
                    tick();
                }
                g.samples += 1;
                match which {
                    "unit_circle" => {
                        let p: [$F; 2] = UnitCircle.sample(rng);
                        let (x, y) = (p[0] as f64, p[1] as f64);
                        if x.is_nan() || y.is_nan() {
                            g.nan += 1;
                            continue;
                        }
                        let e = ((x * x + y * y).sqrt() - 1.0).abs();
                        g.max_norm_err = g.max_norm_err.max(e / eps);
                        if e > 8.0 * eps {
                            g.norm_bad += 1;
                            if g.first_bad.is_none() {
                                g.first_bad = Some(json!({"draw": it, "point": [x, y], "norm_err_in_eps": e / eps}));
                            }
                        }
                        let a = y.atan2(x) / tau + 0.5;
                        g.cells[cell(a, 64)] += 1;
                    }
                    "unit_disc" => {
                        let p: [$F; 2] = UnitDisc.sample(rng);
                        let (x, y) = (p[0] as f64, p[1] as f64);
                        if x.is_nan() || y.is_nan() {
                            g.nan += 1;
                            continue;
                        }
                        // as the sampler evaluates it, in its own type
                        let own = p[0] * p[0] + p[1] * p[1];
                        let r2 = x * x + y * y;
                        if own > 1.0 || r2 > 1.0 + 4.0 * eps {
                            g.norm_bad += 1;
                            if g.first_bad.is_none() {
                                g.first_bad = Some(json!({"draw": it, "point": [x, y], "r2": r2}));
                            }
                        }
                        let a = y.atan2(x) / tau + 0.5;
                        g.cells[cell(r2, 16) * 16 + cell(a, 16)] += 1;
                        radial_count(&mut g.radial, r2);
                    }
                    "unit_sphere" => {
                        let p: [$F; 3] = UnitSphere.sample(rng);
                        let (x, y, z) = (p[0] as f64, p[1] as f64, p[2] as f64);
                        if x.is_nan() || y.is_nan() || z.is_nan() {
                            g.nan += 1;
                            continue;
                        }
                        let e = ((x * x + y * y + z * z).sqrt() - 1.0).abs();
                        g.max_norm_err = g.max_norm_err.max(e / eps);
                        if e > 8.0 * eps {
                            g.norm_bad += 1;
                            if g.first_bad.is_none() {
                                g.first_bad = Some(json!({"draw": it, "point": [x, y, z], "norm_err_in_eps": e / eps}));
                            }
                        }
                        let a = y.atan2(x) / tau + 0.5;
                        g.cells[cell((z + 1.0) / 2.0, 16) * 16 + cell(a, 16)] += 1;
                    }
                    _ => {
                        let p: [$F; 3] = UnitBall.sample(rng);
                        let (x, y, z) = (p[0] as f64, p[1] as f64, p[2] as f64);
                        if x.is_nan() || y.is_nan() || z.is_nan() {
                            g.nan += 1;
                            continue;
                        }
                        let own = p[0] * p[0] + p[1] * p[1] + p[2] * p[2];
                        let r2 = x * x + y * y + z * z;
                        if own > 1.0 || r2 > 1.0 + 4.0 * eps {
                            g.norm_bad += 1;
                            if g.first_bad.is_none() {
                                g.first_bad = Some(json!({"draw": it, "point": [x, y, z], "r2": r2}));
                            }
                        }
                        let r = r2.sqrt();
                        let a = y.atan2(x) / tau + 0.5;
                        let zc = if r > 0.0 { (z / r + 1.0) / 2.0 } else { 0.5 };
                        g.cells[(cell(r2 * r, 8) * 8 + cell(zc, 8)) * 8 + cell(a, 8)] += 1;
                        radial_count(&mut g.radial, r2 * r);
                    }
                }
            }
            g
        }
    };
}
geo_run!(geo32, f32);
geo_run!(geo64, f64);

pub fn run_c12(job: &Value) {
    let cases = job["cases"].as_array().expect("cases");
    BUDGET_MS.store(30_000, std::sync::atomic::Ordering::Relaxed);
    for (idx, cj) in cases.iter().enumerate() {
        let which = cj["fam"].as_str().unwrap();
        let ty = cj["ty"].as_str().unwrap();
        let n = cj["n"].as_u64().unwrap();
        let seed = cj["seed"].as_u64().unwrap();
        let generator = cj["gen"].as_u64().unwrap_or(0);
        set_ctx(json!({"case_idx": idx, "fam": which, "ty": ty, "phase": "c12"}));
        let r = guarded(|| {
            if generator == 0 {
                let mut rng = Fast(Xo::new(seed), 0);
                let g = if ty == "f32" { geo32(which, n, &mut rng) } else { geo64(which, n, &mut rng) };
                (g, rng.1)
            } else {
                let mut rng = Fast(Cha::new(seed), 0);
                let g = if ty == "f32" { geo32(which, n, &mut rng) } else { geo64(which, n, &mut rng) };
                (g, rng.1)
            }
        });
        match r {
            Caught::Ok((g, words)) => emit(&json!({"ev": "c12", "key": cj["key"], "fam": which, "ty": ty, "n": n, "seed": seed, "gen": generator, "words": words, "samples": g.samples, "nan": g.nan,
                "norm_bad": g.norm_bad, "first_bad": g.first_bad, "cells": g.cells, "radial": g.radial, "max_norm_err_in_eps": g.max_norm_err})),
            Caught::Panic(m) => emit(&json!({"ev": "c12_panic", "key": cj["key"], "msg": m})),
            _ => {}
        }
        flush();
    }
    emit(&json!({"ev": "done"}));
    flush();
}
