"""C10 — WeightedTreeIndex samples proportionally to the current weights (fresh and after histories)."""
import json
import os
import subprocess
import time

import numpy as np

import stats as S
import vlib as V

INT_TYPES = ['u8', 'i8', 'u16', 'i16', 'u32', 'i32', 'u64', 'i64', 'usize', 'u128', 'i128']


def run(tier, seed):
    t0 = time.time()
    th = tier == 'thorough'
    bins = {'release': V.build('release'), 'checked': V.build('checked')}
    wd = V.workdir('c10')
    jobs = []
    rel = bins['release']
    nsh = 32 if th else 16
    for sh in range(nsh):
        jobs.append({'profile': 'release', 'seed': seed, 'shard': sh, 'part': 'f32', 'trees': 25 if th else 5, 'cases': [], '_bin': rel})
        jobs.append({'profile': 'release', 'seed': seed, 'shard': sh, 'part': 'f64', 'trees': 25 if th else 5, 'cases': [], '_bin': rel})
    # the internal post-condition assertions are plain assert!s (active in release too); the checked
    # profile adds overflow checks: run a smaller share there
    for sh in range(2):
        for part in ('f32', 'f64'):
            jobs.append({'profile': 'checked', 'seed': seed + 1, 'shard': 100 + sh, 'part': part, 'trees': 6 if th else 2, 'cases': [], '_bin': bins['checked']})
    for wt in INT_TYPES:
        for prof, b in bins.items():
            for sh in range(3 if th else 1):
                jobs.append({'profile': prof, 'seed': seed, 'shard': sh, 'part': wt, 'trees': 20 if th else 6, 'n': 10_000_000 if th else 1_000_000, 'cases': [], '_bin': b})
    events, meta = V.run_shards(None, 'c10', jobs, wd, 'c10', wall_timeout=7200, resumable=False)
    ver = V.Verdict('C10')
    n_f32 = n_f64 = n_int = 0
    draws = targets = adv = 0
    flags = confirmed = 0
    stats_n = 0
    fresh_n = hist_n = 0
    invalid_ok = 0
    neg_probes = 0
    samples = []
    maxdev32 = 0.0
    for e in events:
        ev = e.get('ev')
        if ev == 'hang':
            raise V.Broken('C10 harness exceeded its CPU budget: %r' % e)
        if ev == 'viol':
            ver.add({'wt': e.get('wt'), 'kind': e['kind'], 'fresh': e.get('tree', '').startswith('fresh')}, e)
        elif ev == 'c10_invalid':
            invalid_ok += 1 if e['ok'] else 0
        elif ev == 'c10_negative':
            neg_probes += e['probes']
        elif ev == 'c10_f32':
            n_f32 += 1
            fresh_n += e['fresh']
            hist_n += not e['fresh']
            targets += 1 << 23
            if e['panics']:
                ver.add({'wt': 'f32', 'kind': 'sample_panic', 'msg': (e['first_panic'] or {}).get('msg', '')[:80]},
                        {'tree': e['tree'], 'model': e['model'], 'first_panic': e['first_panic'], 'panics': e['panics'], 'seed': e['seed'], 'profile': e['profile']})
            g = np.array(e['get'], dtype=np.float64)
            c = np.array(e['counts'][:-1], dtype=np.float64)
            tot = g.sum()
            exact = c / float(1 << 23)
            tol = 4.0 * (e['depth'] + 2) * 2.0 ** -23
            dev = np.abs(exact - g / tot)
            maxdev32 = max(maxdev32, float(dev.max() / tol))
            if e['counts'][-1]:
                ver.add({'wt': 'f32', 'kind': 'sample_bad_index'}, e)
            if np.any(dev > tol):
                i = int(np.argmax(dev))
                # a negative get(i) (rounding residue left by the update history) cannot be sampled with
                # negative probability: the sampler necessarily deviates from get()/total by up to that residue
                neg = float(-g[g < 0].sum())
                within = bool(neg > 0 and not e['fresh'] and dev.max() * abs(tot) <= 2.0 * neg + tol * abs(tot))
                ver.add({'wt': 'f32', 'kind': 'law', 'fresh': e['fresh'], 'within_negative_residue': within},
                        {'tree': e['tree'], 'index': i, 'exact_freq': float(exact[i]), 'want': float(g[i] / tot), 'tol': tol, 'negative_get_sum': neg, 'get': e['get'], 'model': e['model'], 'seed': e['seed']})
            if np.any((g == 0) & (c > 0)):
                ver.add({'wt': 'f32', 'kind': 'zero_weight_index_returned'}, {'tree': e['tree'], 'model': e['model']})
            if len(samples) < 2:
                samples.append({'kind': 'f32 tree, all 2^23 targets', 'tree': e['tree'], 'weights': e['model'][:8], 'exact_freq': exact[:8].tolist(), 'max_dev_over_tol': float(dev.max() / tol)})
        elif ev == 'c10_f64':
            n_f64 += 1
            fresh_n += e['fresh']
            hist_n += not e['fresh']
            targets += e['calls']
            if e['panics']:
                ver.add({'wt': 'f64', 'kind': 'sample_panic', 'msg': (e['panic_samples'][0] if e['panic_samples'] else {}).get('msg', '')[:80]},
                        {'tree': e['tree'], 'model': e['model'], 'panic_samples': e['panic_samples'], 'panics': e['panics'], 'seed': e['seed'], 'profile': e['profile']})
            if e['bad_index']:
                ver.add({'wt': 'f64', 'kind': 'sample_bad_index'}, e)
            if e['nonmonotone_pairs'] or e['multiword']:
                # precondition of the bisection failed: not applicable for this tree (never a violation)
                continue
            g = np.array(e['get'], dtype=np.float64)
            order = e['order']
            w = np.array(e['widths_by_rank'], dtype=np.float64)
            want = g[order] / g.sum()
            tol = 4.0 * (e['depth'] + 2) * 2.0 ** -52 + 8 * 2.0 ** -52
            dev = np.abs(w - want)
            if np.any(dev > tol * np.maximum(1.0, 0)):
                # relative to total 1: widths are fractions of the unit interval
                i = int(np.argmax(dev))
                neg = float(-g[g < 0].sum())
                within = bool(neg > 0 and not e['fresh'] and dev.max() * abs(g.sum()) <= 2.0 * neg + tol * abs(g.sum()))
                ver.add({'wt': 'f64', 'kind': 'law', 'fresh': e['fresh'], 'within_negative_residue': within},
                        {'tree': e['tree'], 'rank': i, 'index': order[i], 'width': float(w[i]), 'want': float(want[i]), 'tol': tol, 'negative_get_sum': neg, 'get': e['get'], 'model': e['model'], 'seed': e['seed']})
            if np.any((g[order] == 0) & (w > 0)):
                ver.add({'wt': 'f64', 'kind': 'zero_weight_index_returned'}, {'tree': e['tree'], 'model': e['model']})
            if len(samples) < 4:
                samples.append({'kind': 'f64 tree, interval boundaries by bisection', 'tree': e['tree'], 'weights': e['model'][:6], 'widths_by_rank': w[:6].tolist(), 'bisection_calls': e['calls']})
        elif ev == 'c10_int':
            n_int += 1
            fresh_n += e['fresh']
            hist_n += not e['fresh']
            draws += e['n']
            adv += e['adv_execs']
            ws = [int(x) for x in e['weights']]
            T = sum(ws)
            p = np.array([w / T for w in ws], dtype=np.float64)
            c = np.array(e['counts'][:-1], dtype=np.float64)
            if e['counts'][-1]:
                ver.add({'wt': e['wt'], 'kind': 'sample_bad_index'}, e)
            zero_hit = [i for i, w in enumerate(ws) if w == 0 and c[i] > 0]
            if zero_hit:
                ver.add({'wt': e['wt'], 'kind': 'zero_weight_index_returned'}, {'tree': e['tree'], 'indices': zero_hit[:5], 'weights': e['weights'][:50]})
            fl = S.stage1(c, e['n'], p, 2.0 ** -60, with_cum=False)
            stats_n += len(ws)
            if fl:
                flags += len(fl)
                # stage 2: independent generator family, 4N draws, one-sided on the flagged statistic
                if e.get('counts2'):
                    # drawn by the harness from the very tree that was flagged (ChaCha12, 4N)
                    rec = {'ev': 'recount', 'counts': e['counts2'], 'n': e['n2']}
                else:
                    jp = os.path.join(wd, 'recount.json')
                    json.dump({'wt': e['wt'], 'n': 4 * e['n'], 'seed': e['seed'] ^ 0x5EED, 'weights': e['weights']}, open(jp, 'w'))
                    r = subprocess.run([rel, 'c10-recount', jp], capture_output=True, text=True, timeout=3600)
                    rec = json.loads(r.stdout.strip().splitlines()[-1])
                if rec.get('ev') != 'recount':
                    ver.add({'wt': e['wt'], 'kind': 'sample_panic'}, rec)
                    continue
                c2 = np.array(rec['counts'][:-1], dtype=np.float64)
                for f in fl:
                    if S.stage2(f, c2, rec['n'], p, 2.0 ** -60):
                        confirmed += 1
                        ver.add({'wt': e['wt'], 'kind': 'law', 'fresh': e['fresh']},
                                {'tree': e['tree'], 'index': f[1], 'stage1_count': float(c[f[1]]), 'n1': e['n'], 'stage2_count': float(c2[f[1]]), 'n2': rec['n'], 'p': float(p[f[1]]), 'weights': e['weights'][:50], 'seed': e['seed']})
            if len(samples) < 6:
                samples.append({'kind': 'integer tree, %d draws' % e['n'], 'wt': e['wt'], 'tree': e['tree'], 'weights': e['weights'][:6], 'counts': e['counts'][:6]})
    rc = ver.finish()
    cov = {
        'evaluations': targets + draws + adv,
        'distinct_nontrivial': n_f32 + n_f64 + n_int,
        'rule': 'one evaluation = one sample()/try_sample() call on a tree (an enumerated f32 target, a bisection/probe target for f64, a random-stream draw or an adversarial-stream execution for integers); '
                'distinct_nontrivial = distinct valid trees examined (seeded; fresh builds and trees left by random 200-300-operation histories)',
        'samples': samples,
        'f32_trees_all_2p23_targets': n_f32, 'f64_trees_bisected': n_f64, 'integer_trees': n_int, 'fresh_trees': int(fresh_n), 'trees_after_histories': int(hist_n),
        'integer_draws': draws, 'adversarial_stream_executions': adv, 'f32_max_deviation_over_tolerance': maxdev32,
        'statistics_tested_stage1': stats_n, 'stage1_flags': flags, 'stage2_confirmed': confirmed, 'invalid_trees_returning_InsufficientNonZero': invalid_ok, 'negative_weight_probes': neg_probes,
        'exhaustive': False, 'known_findings_hit': {k: v['n'] for k, v in ver.known_hits.items()},
    }
    V.write_evidence('C10', tier, seed, cov, time.time() - t0, len(ver.violations),
                     assumptions=['f32/f64 laws are compared with the tree\'s own get(i)/total (rounding of float updates is C09\'s weak claim)',
                                  'integer uniform range sampling of rand is unbiased to 2^-60', 'stage 2 uses ChaCha12 (StdRng)'])
    if n_f32 == 0 or n_f64 == 0 or n_int < 20:
        return 1 if rc == 1 else 2  # a violation outranks a missed coverage floor
    return rc
