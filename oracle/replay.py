"""vcheck replay <path>: re-execute a recorded witness against the current tree."""
import json
import os
import subprocess

import vlib as V


def run(path):
    with open(path) as f:
        d = json.load(f)
    prop, rec = d.get('property'), d.get('record', {})
    print('property:', prop)
    print('signature:', json.dumps(d.get('signature'), sort_keys=True))
    if isinstance(rec, dict) and 'stream' in rec and 'case' in rec and isinstance(rec['stream'], dict) and 'word' in rec['stream']:
        prof = rec.get('profile', 'release')
        std = prof.endswith('+std_math')
        binary = V.build('checked' if prof.startswith('checked') else 'release', std_math=std)
        wd = V.workdir('replay')
        jp = os.path.join(wd, 'replay.json')
        json.dump(rec, open(jp, 'w'))
        r = subprocess.run([binary, 'replay-adv', jp], capture_output=True, text=True, timeout=600)
        print('recorded :', rec.get('kind'), rec.get('value'), rec.get('msg'))
        print('replayed :', r.stdout.strip() or r.stderr.strip()[-500:])
        return 0
    if isinstance(rec, dict) and 'stage1' in rec and 'case' in rec:
        print('statistical witness (re-run the check to re-sample): case %s, statistic %s[%s] at threshold %s' % (rec['case'], rec.get('statistic'), rec.get('index'), rec.get('threshold')))
        print(json.dumps({k: rec[k] for k in ('stage1', 'stage2', 'reference_F', 'eps') if k in rec}, indent=1))
        return 0
    print(json.dumps(rec, indent=1, default=str)[:4000])
    return 0
