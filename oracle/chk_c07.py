"""C07 — location and scale parameters act as exact affine maps on a fixed random stream."""
import time

import vlib as V

FAMS = ['normal', 'cauchy', 'gumbel', 'frechet', 'skew_normal', 'exp', 'gamma', 'weibull', 'pareto', 'inverse_gaussian', 'triangular', 'pert', 'log_normal', 'from_zscore']


def run(tier, seed):
    t0 = time.time()
    th = tier == 'thorough'
    bins = {'release': V.build('release'), 'checked': V.build('checked')}
    if th:
        bins['release+std_math'] = V.build('release', std_math=True)
    wd = V.workdir('c07')
    jobs = []
    for prof, b in bins.items():
        for ty in ('f32', 'f64'):
            for sh in range(4 if th else 2):
                jobs.append({'profile': prof, 'verif_seed': seed * 100 + sh, 'ty': ty, 'n_random': 300 if th else 200, 'positions': 6 if th else 4, 'n_maps': 48 if th else 24, 'cases': [], '_bin': b})
    events, meta = V.run_shards(None, 'c07', jobs, wd, 'c07', wall_timeout=7200, resumable=False)
    ver = V.Verdict('C07')
    pairs = skipped = 0
    seen = set()
    worst = {}
    samples = []
    gen = {'pairs': 0, 'isolated_flips': 0, 'max_error_over_bound': 0.0}
    for e in events:
        if e.get('ev') == 'hang':
            raise V.Broken('C07 hang: %r' % e)
        if e.get('ev') == 'c07':
            pairs += e['pairs']
            skipped += e['skipped_overflow_or_subnormal']
            seen.add((e['fam'], e['ty']))
            k = '%s<%s>' % (e['fam'], e['ty'])
            worst[k] = max(worst.get(k, 0.0), e['max_error_over_bound'])
        elif e.get('ev') == 'c07_general':
            gen['pairs'] += e['pairs']
            gen['isolated_flips'] += e['isolated_flips']
            gen['max_error_over_bound'] = max(gen['max_error_over_bound'], e['max_error_over_bound'])
        elif e.get('ev') == 'viol':
            ver.add({'fam': e['fam'], 'ty': e['ty'], 'kind': e['kind']}, e)
        elif e.get('ev') == 'ctor_err':
            raise V.Broken('C07 envelope case rejected by constructor: %r' % e)
    rc = ver.finish()
    samples.append({'pair': 'Normal<f64>(0,1) vs Normal<f64>(10,10) on clones of one xoshiro stream with word 0x8000000000000000 at position 1', 'checked': 'x1 vs 10 + 10*x0 within 2ulp(x1)+2ulp(10*x0); equal word counts; equal RNG state'})
    samples.append({'worst_error_over_bound_by_family': worst})
    samples.append({'general_affine_maps_of_triangular_and_pert': gen, 'rule': 'image of the canonical sample under the map of the support within 4*sqrt(eps) of the range (cancellation inside the samplers next to the ends of the support amplifies parameter rounding that far); isolated mismatches are acceptance flips on a rounding boundary, a mismatch rate > 1 % of the random streams (> 10 % of the correlated lattice streams) of one (base, map) pair is a violation'})
    cov = {
        'evaluations': pairs,
        'distinct_nontrivial': len(seen),
        'rule': 'one evaluation = one paired sample() call (canonical member and mapped member on clones of one stream: 100 random streams and every lattice word at positions 0..1/0..3 per (family, base parameters, map)); '
                'distinct_nontrivial = (family, float type) pairs exercised',
        'samples': samples,
        'pairs_skipped_overflow_or_subnormal': skipped, 'profiles': sorted(bins),
        'known_findings_hit': {k: v['n'] for k, v in ver.known_hits.items()},
    }
    V.write_evidence('C07', tier, seed, cov, time.time() - t0, len(ver.violations),
                     assumptions=['reference a + b*x0 evaluated with an error-free product and sum', 'InverseGaussian only under floating-point-exact maps (powers of two); Triangular/Pert bit-exact under powers of two and grid shifts, and rate-based under general maps of the support'])
    if gen['pairs'] == 0:
        V.log('general-map monitor observed nothing')
        return rc or 2
    if len(seen) < 2 * len(FAMS):
        V.log('coverage floor not met', sorted(seen))
        return 1 if rc == 1 else 2  # a violation outranks a missed coverage floor
    return rc
