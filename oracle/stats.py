"""Exact, non-asymptotic decision procedures of DESIGN.md §3.1 (composite null |p_true - p| <= eps)."""
import math

import numpy as np
from scipy import stats as st

ALPHA1 = 1e-7
ALPHA2 = 1e-9


def pvalue_two_sided(k, n, p, eps):
    """Two-sided exact binomial p-value of count k out of n against the composite null
    p_true in [p-eps, p+eps] (worst case = the end of the interval nearest to k/n)."""
    k = np.asarray(k, dtype=np.float64)
    p = np.asarray(p, dtype=np.float64)
    eps = np.asarray(eps, dtype=np.float64)
    lo = np.clip(p - eps, 0.0, 1.0)
    hi = np.clip(p + eps, 0.0, 1.0)
    out = np.ones_like(k, dtype=np.float64)
    below = k < n * lo
    above = k > n * hi
    if np.any(below):
        out[below] = np.minimum(1.0, 2.0 * st.binom.cdf(k[below], n, lo[below]))
    if np.any(above):
        out[above] = np.minimum(1.0, 2.0 * st.binom.sf(k[above] - 1, n, hi[above]))
    return out, np.where(below, -1, np.where(above, 1, 0))


def pvalue_one_sided(k, n, p, eps, direction):
    """P(count at least as extreme in `direction`) under the worst-case p in the null interval."""
    if direction < 0:
        return float(st.binom.cdf(k, n, max(0.0, p - eps)))
    return float(st.binom.sf(k - 1, n, min(1.0, p + eps)))


def dkw_bound(n, alpha):
    return math.sqrt(math.log(2.0 / alpha) / (2.0 * n))


def stage1(counts, n, probs, eps, alpha=ALPHA1, with_cum=True):
    """counts/probs per cell (arrays, same length).  Tests every cell and every cumulative tail
    (both directions) and the DKW statistic.  Returns list of flags
    (kind, index, direction, pvalue)."""
    counts = np.asarray(counts, dtype=np.float64)
    probs = np.asarray(probs, dtype=np.float64)
    eps = np.broadcast_to(np.asarray(eps, dtype=np.float64), probs.shape).copy()
    flags = []
    pv, dr = pvalue_two_sided(counts, n, probs, eps)
    for i in np.nonzero(pv < alpha)[0]:
        flags.append(('cell', int(i), int(dr[i]), float(pv[i])))
    if with_cum and len(counts) > 2:
        cc = np.cumsum(counts)[:-1]
        cp = np.cumsum(probs)[:-1]
        ce = np.minimum(np.cumsum(eps)[:-1], np.cumsum(eps[::-1])[::-1][1:])
        pv, dr = pvalue_two_sided(cc, n, np.clip(cp, 0, 1), ce)
        for i in np.nonzero(pv < alpha)[0]:
            flags.append(('cum', int(i), int(dr[i]), float(pv[i])))
        d = np.abs(cc / n - cp) - ce
        j = int(np.argmax(d))
        if d[j] > dkw_bound(n, alpha):
            flags.append(('dkw', j, 1 if cc[j] / n > cp[j] else -1, 0.0))
    return flags


def stage2(flag, counts2, n2, probs, eps, alpha=ALPHA2):
    """Re-test only the flagged statistic, one-sided in the flagged direction. True = confirmed."""
    kind, i, direction, _ = flag
    counts2 = np.asarray(counts2, dtype=np.float64)
    probs = np.asarray(probs, dtype=np.float64)
    eps = np.broadcast_to(np.asarray(eps, dtype=np.float64), probs.shape)
    if kind == 'cell':
        return pvalue_one_sided(counts2[i], n2, probs[i], eps[i], direction) < alpha
    cc = float(np.sum(counts2[:i + 1]))
    cp = float(np.sum(probs[:i + 1]))
    ce = float(min(np.sum(eps[:i + 1]), np.sum(eps[i + 1:])))
    return pvalue_one_sided(cc, n2, min(max(cp, 0.0), 1.0), ce, direction) < alpha


def selftest():
    """The procedure must stay silent on samples drawn from the reference law itself and must fire
    on a deliberately wrong reference."""
    rng = np.random.default_rng(12345)
    p = np.array([0.1, 0.2, 0.3, 0.4])
    n = 2_000_000
    silent = 0
    for _ in range(50):
        c = rng.multinomial(n, p)
        if not stage1(c, n, p, 1e-12):
            silent += 1
    c = rng.multinomial(n, p)
    wrong = np.array([0.1, 0.2, 0.302, 0.398])
    fired = bool(stage1(c, n, wrong, 1e-12))
    return {'silent_runs_of_50': silent, 'fires_on_wrong_reference': fired}


if __name__ == '__main__':
    print(selftest())
