"""C04 — constructors accept exactly the documented domain and never panic."""
import time

import vlib as V


def run(tier, seed):
    t0 = time.time()
    th = tier == 'thorough'
    bins = {'release': V.build('release'), 'checked': V.build('checked')}
    wd = V.workdir('c04')
    jobs = []
    for prof, b in bins.items():
        for part in ('f32', 'f64', 'int', 'weighted'):
            jobs.append({'profile': prof, 'seed': V.seed_env() * 1000 + 17, 'nrand': 24 if th else 10, 'deep': th, 'part': part, 'cases': [], '_bin': b})
    events, meta = V.run_shards(None, 'ctor', jobs, wd, 'ctor', wall_timeout=3600, resumable=False)
    ver = V.Verdict('C04')
    calls = unspec = acc = 0
    ctors = {}
    outcomes = set()
    samples = []
    inconclusive = []
    for e in events:
        if e.get('ev') == 'ctor':
            calls += e['calls']
            unspec += e['unspecified']
            acc += e['accessor_checks']
            d = ctors.setdefault(e['ctor'], {'calls': 0, 'ok': 0, 'err': {}, 'profiles': []})
            d['calls'] += e['calls']
            d['ok'] += e['ok']
            d['profiles'].append(e['profile'])
            for k, v in e['err'].items():
                d['err'][k] = d['err'].get(k, 0) + v
                outcomes.add((e['ctor'], k))
            if e['ok']:
                outcomes.add((e['ctor'], 'Ok'))
        elif e.get('ev') == 'viol':
            sig = {'ctor': e['ctor'], 'kind': e['kind'], 'profile_class': 'checked-only' if e['profile'] == 'checked' else 'any'}
            ver.add(sig, e)
            if len(samples) < 3:
                samples.append({'ctor': e['ctor'], 'args': e['args'], 'kind': e['kind']})
        elif e.get('ev') == 'hang':
            inconclusive.append({'why': 'slow constructor', 'ctx': e.get('ctx')})
        elif e.get('ev') == 'note':
            inconclusive.append(e)
    # a panic seen in both profiles is one signature
    rc = ver.finish()
    for name, d in list(ctors.items())[:4]:
        samples.append({'ctor': name, 'calls': d['calls'], 'ok': d['ok'], 'err': d['err']})
    cov = {
        'evaluations': calls,
        'distinct_nontrivial': len(outcomes),
        'rule': 'one evaluation = one constructor call on an argument tuple from the cross product of the special-value lattice (+ random values), in one build profile; '
                'distinct_nontrivial = number of distinct (constructor, outcome class) pairs observed, outcome class = Ok or the error variant',
        'samples': samples,
        'constructors': len(ctors), 'unspecified_region_calls_not_judged': unspec, 'accessor_comparisons': acc,
        'per_constructor': ctors, 'inconclusive': inconclusive, 'hangs': meta['hangs'],
        'known_findings_hit': {k: v['n'] for k, v in ver.known_hits.items()},
    }
    V.write_evidence('C04', tier, seed, cov, time.time() - t0, len(ver.violations),
                     assumptions=['Appendix A of DESIGN.md transcribes the documented error conditions', 'Hypergeometric::new calls predicted to loop ~N > 2^24 times are skipped (counted)'])
    if len(ctors) < 40 or meta['hangs']:
        V.log('coverage floor not met', len(ctors), meta)
        return 1 if rc == 1 else 2  # a violation outranks a missed coverage floor
    return rc
