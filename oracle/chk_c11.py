"""C11 — Dirichlet samples lie on the simplex and have the Dirichlet law."""
import time

import numpy as np

import cases as C
import lawmon as L
import vlib as V


def dirichlet_cases(tier, seed):
    th = tier == 'thorough'
    rnd = C.Rnd(seed, 0xC11)
    out = []
    for ty in C.FLOAT_TYS:
        lo, hi = (1e-3, 1e4) if ty == 'f64' else (1e-2, 1e3)
        up = C.nxt(0.1, ty, 1)
        dn = C.nxt(0.1, ty, -1)
        vecs = [[1.0, 2.0, 3.0], [0.1, 0.1], [0.05, 0.02, 0.1], [up, 0.05], [dn, 0.05], [0.1, up], [lo, lo], [lo, hi], [hi, hi, hi], [0.5] * 8, [lo] * 5, [0.1] * 64,
                [1.0] * 64, [0.3, 0.2, 0.5, 1.0, 2.0, 7.0], [0.09, 0.08, 0.07, 0.06], [5.0, 0.5], [hi, 1.0, lo], [2.0, 0.11, 0.5], [0.2, 0.2, 0.2]]
        # the component samplers' own switch (Gamma shape = 1: Exp / Marsaglia-Tsang / boosted small-shape) from both sides
        one_up, one_dn = C.nxt(1.0, ty, 1), C.nxt(1.0, ty, -1)
        # a large first entry with a small last one: the last component lives far below the resolution of 1 - x0
        vecs += [[hi, 0.11], [3.0, 0.2], [50.0, 0.15, 0.3]]
        vecs += [[one_up, 2.0], [one_dn, 0.5], [1.002, 60.0], [1.004] * 3, [1.0001, 1.0001], [0.999, 0.999, 3.0], [1.01, 0.5], [1.02, 1.0, 0.98, 30.0]]
        for _ in range(60 if th else 6):
            n = 2 + rnd.below(24 if not th else 63)
            kind = rnd.below(3)
            if kind == 0:
                vecs.append([rnd.loguniform(lo, 0.1) for _ in range(n)])
            elif kind == 1:
                vecs.append([rnd.loguniform(0.11, hi) for _ in range(n)])
            else:
                vecs.append([rnd.loguniform(lo, hi) for _ in range(n)])
        for v in vecs:
            out.append(C.mk('dirichlet', ty, v, ('law',)))
    return C.dedup(out)


def choose_stats(alpha):
    k = len(alpha)
    idx = list(range(k)) if k <= 8 else sorted(set([0, 1, k // 2, k - 2, k - 1, int(np.argmin(alpha)), int(np.argmax(alpha))]))
    stats = [('marg', i, 0) for i in idx]
    pairs = set()
    for i in range(min(k - 1, 4)):
        pairs.add((i, i + 1))
    pairs.add((0, k - 1))
    pairs.add((k - 2, k - 1))
    a, b = int(np.argmin(alpha)), int(np.argmax(alpha))
    if a != b:
        pairs.add((a, b))
    stats += [('ratio', i, j) for i, j in sorted(pairs)]
    return stats


def run(tier, seed):
    t0 = time.time()
    th = tier == 'thorough'
    binary = V.build('release')
    wd = V.workdir('c11')
    cs = dirichlet_cases(tier, seed)
    # Beta probe tables for every statistic
    beta_cases = {}
    plan = {}
    for c in cs:
        al = c['pv']
        a0 = sum(al)
        st = []
        for kind, i, j in choose_stats(al):
            bc = C.mk('beta', c['ty'], [al[i], a0 - al[i]] if kind == 'marg' else [al[i], al[j]])
            beta_cases[bc['id']] = bc
            st.append((kind, i, j, bc['id']))
        plan[c['id']] = st
    probes = L.probes_for(list(beta_cases.values()), tier)

    def jobs_for(subset, gen, mult, tagseed):
        jcs = []
        for c in subset:
            k = len(c['pv'])
            n = int(max(200_000, 4_000_000 // k) * (10 if th else 1) * mult)
            stats = []
            for kind, i, j, bid in plan[c['id']]:
                p = probes[bid]
                if 'error' in p:
                    continue
                stats.append({'kind': kind, 'i': i, 'j': j, 'thr': p['thr']})
            left, kk = n, 0
            while left > 0:
                m = min(left, 1_000_000)
                jc = dict(C.strip(c))
                jc.update({'key': c['id'], 'n': m, 'seed': C.mix(seed, C.hash_name(c['id']), kk, tagseed), 'gen': gen, 'stats': stats})
                jcs.append((m * k, jc))
                left -= m
                kk += 1
        return jcs

    def runit(jcs, tag):
        jcs.sort(key=lambda x: -x[0])
        nsh = min(V.NCPU * 3, len(jcs))
        shards = [[] for _ in range(nsh)]
        load = [0] * nsh
        for m, jc in jcs:
            i = load.index(min(load))
            shards[i].append(jc)
            load[i] += m
        events, meta = V.run_shards(None, 'c11', [{'cases': sh, '_bin': binary} for sh in shards if sh], wd, tag, wall_timeout=7200)
        res = {}
        for e in events:
            if e.get('ev') == 'c11_panic':
                res.setdefault(e['key'], {'panic': e['msg']})
            if e.get('ev') != 'c11':
                continue
            r = res.setdefault(e['key'], {'samples': 0, 'wrong_length': 0, 'nan': 0, 'outside': 0, 'sum_not_one': 0, 'viol': [], 'pairs': 0, 'pair_bad': 0, 'repr': e['repr'], 'stats': None, 'words': 0, 'sample_len': e['sample_len']})
            for k in ('samples', 'wrong_length', 'nan', 'outside', 'sum_not_one', 'pairs', 'pair_bad', 'words'):
                r[k] += e[k]
            r['viol'] += e['viol']
            if r['stats'] is None:
                r['stats'] = [{'kind': s['kind'], 'i': s['i'], 'j': s['j'], 'cells': np.array(s['cells'], dtype=np.float64), 'skipped': s['skipped']} for s in e['stats']]
            else:
                for a, b in zip(r['stats'], e['stats']):
                    a['cells'] += np.array(b['cells'], dtype=np.float64)
                    a['skipped'] += b['skipped']
        return res

    res = runit(jobs_for(cs, 0, 1, 1), 'dir')
    ver = V.Verdict('C11')
    # the same vectors in the overflow-checked / debug-assertions profile: construction and 20000 samples each,
    # judged for panics and the per-sample simplex assertions only
    cbin = V.build('checked')
    cj = []
    for c in cs:
        jc = dict(C.strip(c))
        jc.update({'key': c['id'], 'n': 20000, 'seed': C.mix(seed, C.hash_name(c['id']), 9), 'gen': 0, 'stats': []})
        cj.append(jc)
    cev, _ = V.run_shards(None, 'c11', [{'cases': sh, '_bin': cbin} for sh in V.shard(cj, V.NCPU)], wd, 'dir_checked', wall_timeout=3600)
    checked_seen = set()
    for e in cev:
        if e.get('ev') == 'c11':
            checked_seen.add(e['key'])
            for kind in ('wrong_length', 'nan', 'outside', 'sum_not_one'):
                if e[kind]:
                    ver.add({'ty': e['key'].split('<')[1][:3], 'kind': kind, 'repr': e['repr'], 'alpha_min': min(C.dec(x) for x in next(c['p'] for c in cs if c['id'] == e['key'])), 'alpha_max': max(C.dec(x) for x in next(c['p'] for c in cs if c['id'] == e['key']))},
                            {'case': e['key'], 'profile': 'checked', 'count': e[kind], 'examples': e['viol'][:3]})
        elif e.get('ev') == 'c11_panic':
            ver.add({'kind': 'panic', 'profile': 'checked', 'msg': e['msg'][:100]}, {'case': e['key'], 'msg': e['msg'], 'profile': 'checked'})
    for c in cs:
        if c['id'] not in checked_seen and not any(r[1].get('case') == c['id'] for r in [(0, v[2]) for v in ver.violations]):
            # the harness died before reporting (constructor panic outside the guarded region)
            pass
    reprs = set()
    comp_events = samples_n = nstats = 0
    flagged = {}
    examples = []
    for c in cs:
        r = res.get(c['id'])
        if r is None:
            continue
        if 'panic' in r:
            ver.add({'ty': c['ty'], 'kind': 'panic'}, {'case': c['id'], 'msg': r['panic']})
            continue
        k = len(c['pv'])
        reprs.add(r['repr'])
        samples_n += r['samples']
        comp_events += r['samples'] * k
        small = min(c['pv'])
        for kind in ('wrong_length', 'nan', 'outside', 'sum_not_one'):
            if r[kind]:
                ver.add({'ty': c['ty'], 'kind': kind, 'repr': r['repr'], 'alpha_min': small, 'alpha_max': max(c['pv'])}, {'case': c['id'], 'count': r[kind], 'of': r['samples'], 'examples': r['viol'][:3]})
        if r['pair_bad']:
            ver.add({'ty': c['ty'], 'kind': 'sample_to_slice_differs'}, {'case': c['id'], 'bad': r['pair_bad'], 'pairs': r['pairs']})
        if r['sample_len'] != k:
            ver.add({'ty': c['ty'], 'kind': 'sample_len'}, {'case': c['id'], 'sample_len': r['sample_len']})
        n_ok = r['samples'] - r['nan'] - r['outside'] - r['wrong_length']
        for s, (kind, i, j, bid) in zip(r['stats'], [x for x in plan[c['id']] if 'error' not in probes[x[3]]]):
            p = probes[bid]
            n_s = n_ok - s['skipped']
            if n_s <= 0:
                continue
            fl, ns = L.judge_counts(s['cells'], n_s, p)
            nstats += ns
            if fl:
                flagged.setdefault(c['id'], []).append((kind, i, j, bid, fl))
        if len(examples) < 4:
            s0 = r['stats'][0]
            examples.append({'alpha': c['pv'][:8], 'ty': c['ty'], 'repr': r['repr'], 'samples': r['samples'], 'statistic': '%s %d' % (s0['kind'], s0['i']), 'cells_head': s0['cells'][:6].tolist()})
    confirmed = 0
    if flagged:
        sub = [c for c in cs if c['id'] in flagged]
        V.log('[C11] %d vector(s) flagged at stage 1; stage 2 with ChaCha12, 4N' % len(sub))
        r2 = runit(jobs_for(sub, 1, 4, 2), 'dir_s2')
        for c in sub:
            rr = r2.get(c['id'])
            if rr is None or 'panic' in rr:
                continue
            n_ok = rr['samples'] - rr['nan'] - rr['outside'] - rr['wrong_length']
            usable = [x for x in plan[c['id']] if 'error' not in probes[x[3]]]
            for (kind, i, j, bid, fl) in flagged[c['id']]:
                s = rr['stats'][usable.index((kind, i, j, bid))]
                p = probes[bid]
                # region of a confirmed deviation: 'edge' = depends on a threshold next to 0 or 1 where the 1 - x
                # cancellation quantises values, 'body' = anywhere else
                # (1 - b is quantised in steps q = 2^-53 / 2^-24; a statistic is distorted by it when a threshold
                # it depends on lies within 2^14 q of 0 or of 1)
                lim0 = lim1 = 2.0 ** -39 if c['ty'] == 'f64' else 2.0 ** -10
                best = {}
                for f in fl:
                    ok, cnt2 = L.confirm(f, s['cells'], n_ok - s['skipped'], p)
                    if ok:
                        confirmed += 1
                        lo_t = p['t'][max(0, min(f['i'], len(p['t']) - 1) - (1 if f['kind'] == 'cell' else 0))]
                        hi_t = p['t'][min(f['i'], len(p['t']) - 1)]
                        if f['kind'] == 'cell':
                            region = 'edge' if (lo_t <= lim0 or hi_t >= 1.0 - lim1) else 'body'
                        else:
                            region = 'edge' if (hi_t <= lim0 or hi_t >= 1.0 - lim1) else 'body'
                        best.setdefault(region, (f, cnt2, hi_t))
                for region, (f, cnt2, hi_t) in best.items():
                    # the 1 - b cancellation of the FromBeta path cannot touch the first component's marginal (x_0 = b_0)
                    exposed = not (kind == 'marg' and i == 0)
                    ver.add({'ty': c['ty'], 'kind': 'law', 'statistic': kind, 'repr': rr['repr'], 'region': region, 'alpha_min': min(c['pv']), 'alpha_max': max(c['pv']), 'after_first_stick': exposed},
                            {'case': c['id'], 'statistic': kind, 'i': i, 'j': j, 'reference': bid, 'flag': f, 'threshold': hi_t, 'stage2_count': cnt2, 'n2': n_ok})
    rc = ver.finish()
    cov = {
        'evaluations': comp_events,
        'distinct_nontrivial': len([c for c in cs if c['id'] in res]),
        'rule': 'one evaluation = one component of one sampled vector (every sample: length, range, NaN, sum asserted; chosen marginals and pair ratios binned); distinct_nontrivial = alpha vectors (both float types) whose samples were monitored',
        'samples': examples,
        'vectors_sampled': samples_n, 'representations_seen': sorted(reprs), 'statistics_tested_stage1': nstats, 'stage1_flagged_vectors': len(flagged), 'stage2_confirmed': confirmed,
        'lengths': sorted(set(len(c['pv']) for c in cs)),
        'known_findings_hit': {k: v['n'] for k, v in ver.known_hits.items()},
    }
    V.write_evidence('C11', tier, seed, cov, time.time() - t0, len(ver.violations),
                     assumptions=['marginals Beta(alpha_i, alpha_0 - alpha_i) and pair ratios Beta(alpha_i, alpha_j) from the reference beta law', 'ratio computed in the sampler\'s own float type'])
    if reprs != {'FromBeta', 'FromGamma'} or samples_n == 0:
        return 1 if rc == 1 else 2  # a violation outranks a missed coverage floor
    return rc
