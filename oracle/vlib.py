"""Driver library: build the harness from /repo's working tree, run sharded harness jobs with
restart-after-hang, match known findings, write evidence, print verdict lines."""
import hashlib
import json
import os
import subprocess
import sys
import time

VERIF = os.path.dirname(os.path.dirname(os.path.abspath(__file__)))
HARNESS = os.path.join(VERIF, 'harness')
TARGET = os.path.join(VERIF, 'target')
WORK = os.path.join(VERIF, 'work')
EVID = os.path.join(VERIF, 'evidence')
REPLAYS = os.path.join(VERIF, 'replays')
NCPU = min(16, os.cpu_count() or 1)

ENV = dict(os.environ)
ENV['CARGO_NET_OFFLINE'] = 'true'


class Broken(Exception):
    """harness/build/oracle failure: exit code 2, never a VIOLATION"""


def log(*a):
    print(*a, file=sys.stderr, flush=True)


def build(profile='release', std_math=False):
    """cargo build of the harness against /repo's current working tree; returns the binary path."""
    tdir = TARGET + ('-std' if std_math else '')
    cmd = ['cargo', 'build', '--offline', '--quiet', '--profile', profile, '--target-dir', tdir]
    if std_math:
        cmd += ['--features', 'std_math']
    env = dict(ENV)
    env['RUSTFLAGS'] = '--cfg rand_distr_verif'
    lock = os.path.join(HARNESS, 'Cargo.lock')
    if not os.path.exists(lock):
        import shutil
        shutil.copy('/repo/Cargo.lock', lock)
    t0 = time.time()
    r = subprocess.run(cmd, cwd=HARNESS, env=env, stdout=subprocess.PIPE, stderr=subprocess.STDOUT, text=True)
    if r.returncode != 0:
        log(r.stdout[-4000:])
        raise Broken('harness build failed (profile %s)' % profile)
    log('[build] %s%s ok in %.1fs' % (profile, '+std_math' if std_math else '', time.time() - t0))
    return os.path.join(tdir, profile, 'rdv')


def workdir(name):
    d = os.path.join(WORK, name)
    os.makedirs(d, exist_ok=True)
    return d


def read_jsonl(path):
    out = []
    if not os.path.exists(path):
        return out
    with open(path) as f:
        for line in f:
            line = line.strip()
            if not line:
                continue
            try:
                out.append(json.loads(line))
            except json.JSONDecodeError:
                out.append({'ev': 'garbled', 'line': line[:200]})
    return out


# panics located in the crate that escaped a monitor's guards (see run_shards); Verdict.finish() reports them
ESCAPED = []


def run_shards(binary, cmd, jobs, wd, tag, wall_timeout=3600, max_restarts=8, resumable=True, max_hangs_total=32):
    """Run one harness process per job (each job a dict with a 'cases' list), at most NCPU at a time.
    A process that exits with code 3 (watchdog HANG) is restarted after the hanging case.
    Returns (events, meta) where meta counts hangs / inconclusive shards."""
    procs = []
    pending = list(enumerate(jobs))
    running = []
    events = []
    meta = {'hangs': 0, 'inconclusive_shards': 0, 'restarts': 0, 'crashes': []}
    state = {}

    def launch(i, job, start, append):
        jp = os.path.join(wd, '%s_%d.job.json' % (tag, i))
        op = os.path.join(wd, '%s_%d.out.jsonl' % (tag, i))
        job = dict(job)
        bin_ = job.pop('_bin', binary)
        job['start'] = start
        with open(jp, 'w') as f:
            json.dump({k: v for k, v in job.items() if k != '_bin'}, f)
        args = [bin_, cmd, jp, '--out', op] + (['--append'] if append else [])
        p = subprocess.Popen(args, stdout=subprocess.PIPE, stderr=subprocess.PIPE, text=True)
        job['_bin'] = bin_
        return {'i': i, 'job': job, 'p': p, 'op': op, 't0': time.time()}

    while pending or running:
        while pending and len(running) < NCPU:
            i, job = pending.pop(0)
            state[i] = {'restarts': 0}
            running.append(launch(i, job, 0, False))
        time.sleep(0.05)
        still = []
        for r in running:
            rc = r['p'].poll()
            if rc is None:
                if time.time() - r['t0'] > wall_timeout:
                    r['p'].kill()
                    meta['inconclusive_shards'] += 1
                    meta['crashes'].append({'shard': r['i'], 'why': 'wall-clock guard'})
                else:
                    still.append(r)
                continue
            err = r['p'].stderr.read()
            if rc == 0:
                continue
            if rc == 3 and resumable:
                meta['hangs'] += 1
                evs = read_jsonl(r['op'])
                begun = [e for e in evs if e.get('ev') == 'begin']
                last = begun[-1]['case_idx'] if begun else -1
                if state[r['i']]['restarts'] < max_restarts and meta['hangs'] <= max_hangs_total and last + 1 < len(r['job']['cases']):
                    state[r['i']]['restarts'] += 1
                    meta['restarts'] += 1
                    still.append(launch(r['i'], r['job'], last + 1, True))
                elif last + 1 < len(r['job']['cases']):
                    meta['inconclusive_shards'] += 1
                    meta['crashes'].append({'shard': r['i'], 'why': 'hang budget exhausted', 'remaining_from': last + 1})
                continue
            if rc == 3:
                meta['hangs'] += 1
                continue
            if rc == 4:
                # a panic escaped the monitor's guards (the harness reports it and stops that shard): located in the
                # crate it is a violation (collected in ESCAPED, added by Verdict.finish), anywhere else a harness defect
                esc = [e for e in read_jsonl(r['op']) if e.get('ev') == 'escaped_panic']
                msg = esc[-1].get('msg', '') if esc else ''
                if '@ /repo/' in msg:
                    ESCAPED.append({'shard': r['i'], 'cmd': cmd, 'msg': msg, 'ctx': esc[-1].get('ctx')})
                    meta.setdefault('escaped_panics', 0)
                    meta['escaped_panics'] += 1
                    continue
                meta['crashes'].append({'shard': r['i'], 'rc': rc, 'stderr': ('escaped panic: ' + msg)[-2000:]})
                continue
            meta['crashes'].append({'shard': r['i'], 'rc': rc, 'stderr': err[-2000:]})
        running = still
    for i in range(len(jobs)):
        events += read_jsonl(os.path.join(wd, '%s_%d.out.jsonl' % (tag, i)))
    if any('rc' in c for c in meta['crashes']):
        raise Broken('harness crashed: %r' % meta['crashes'][:3])
    return events, meta


def shard(cases, n):
    """Round-robin split into at most n non-empty lists."""
    n = max(1, min(n, len(cases)))
    out = [[] for _ in range(n)]
    for i, c in enumerate(cases):
        out[i % n].append(c)
    return out


# ---------------------------------------------------------------------------------------------
# known findings

def load_known():
    p = os.path.join(VERIF, 'known_findings.json')
    if not os.path.exists(p):
        return {'findings': [], 'fixed': []}
    with open(p) as f:
        return json.load(f)


def _ulp32(x):
    import numpy as np
    x = np.float32(x)
    return float(np.nextafter(x, np.float32(np.inf)) - x)


def _pf(sig, i):
    try:
        return float(sig['params'][i])
    except Exception:
        return None


# named parameter predicates usable from known_findings.json ("pred": name); sig['params'] holds
# the case parameters as decimal strings
PREDICATES = {
    'fisher_f_den_dof_is_1': lambda sig: _pf(sig, 1) == 1.0,
    'student_t_dof_is_1': lambda sig: _pf(sig, 0) == 1.0,
    'geometric_p_below_2p-53': lambda sig: 0.0 < (_pf(sig, 0) or 0.0) < 2.0 ** -53,
    'geometric_p_below_1e-12': lambda sig: 0.0 < (_pf(sig, 0) or 0.0) < 1e-12,
    'lognormal_f32_mu_step_ge_1e-4_sigma': lambda sig: _ulp32(abs(_pf(sig, 0) or 0.0)) >= 1e-4 * abs(_pf(sig, 1) or 1e300),
    'poisson_lambda_ge_5e5': lambda sig: (_pf(sig, 0) or 0) >= 5e5,
    'hypergeometric_N_ge_2p36': lambda sig: (_pf(sig, 0) or 0) >= 2.0 ** 36,
    'dirichlet_gamma_underflow_regime': lambda sig: (sig.get('alpha_min') or 1.0) <= (0.25 if sig.get('ty') == 'f32' else 0.03),
    'dirichlet_params_min_le_0p25': lambda sig: min([float(x) for x in sig.get('params') or [1.0]]) <= 0.25,
    'hypergeometric_N_ge_2p53': lambda sig: (_pf(sig, 0) or 0) >= 2.0 ** 53,
    'poisson_lambda_ge_1e14': lambda sig: (_pf(sig, 0) or 0) >= 1e14,
}


def match_known(prop, sig, known):
    """sig: dict describing a violation; a finding matches when every key of its 'match' dict equals
    (or, for list values, contains) the violation's value."""
    for k in known.get('findings', []):
        if k.get('property') != prop:
            continue
        ok = True
        if k.get('pred') and not PREDICATES[k['pred']](sig):
            continue
        pbf = k.get('pred_by_fam')
        if pbf and (sig.get('fam') not in pbf or not PREDICATES[pbf[sig.get('fam')]](sig)):
            continue
        for key, want in k.get('match', {}).items():
            have = sig.get(key)
            if isinstance(want, list):
                if have not in want:
                    ok = False
                    break
            elif isinstance(want, dict) and 'has' in want:
                if not (isinstance(have, (list, tuple)) and want['has'] in have):
                    ok = False
                    break
            elif isinstance(want, dict):
                # numeric predicate {"ge": x} / {"le": x} / {"prefix": s}
                if 'prefix' in want:
                    if not (isinstance(have, str) and have.startswith(want['prefix'])):
                        ok = False
                        break
                if 'ge' in want and not (have is not None and have >= want['ge']):
                    ok = False
                    break
                if 'le' in want and not (have is not None and have <= want['le']):
                    ok = False
                    break
            elif have != want:
                ok = False
                break
        if ok:
            return k
    return None


class Verdict:
    """Collects violations, de-duplicates them by signature, applies known findings, prints lines."""

    def __init__(self, prop):
        self.prop = prop
        self.known = load_known()
        self.violations = []   # (sigkey, sig, record)
        self.known_hits = {}
        self.seen = set()

    def add(self, sig, record):
        key = json.dumps(sig, sort_keys=True)
        if key in self.seen:
            return
        self.seen.add(key)
        k = match_known(self.prop, sig, self.known)
        if k is not None:
            self.known_hits.setdefault(k['id'], {'finding': k, 'n': 0, 'example': record})
            self.known_hits[k['id']]['n'] += 1
        else:
            self.violations.append((key, sig, record))

    def finish(self):
        """print KNOWN-FINDING / VIOLATION lines; returns exit code"""
        import re
        while ESCAPED:
            e = ESCAPED.pop(0)
            self.add({'kind': 'panic_outside_guard', 'cmd': e['cmd'], 'class': re.sub(r'[-+]?\d[\d.e+-]*', '#', e['msg'])[:120]}, e)
        for kid, h in sorted(self.known_hits.items()):
            print('KNOWN-FINDING: property=%s %s (%d signature(s) this run)' % (self.prop, h['finding']['what'], h['n']))
        os.makedirs(os.path.join(REPLAYS, self.prop), exist_ok=True)
        for key, sig, rec in self.violations[:50]:
            h = hashlib.sha1(key.encode()).hexdigest()[:12]
            path = os.path.join(REPLAYS, self.prop, h + '.json')
            with open(path, 'w') as f:
                json.dump({'property': self.prop, 'signature': sig, 'record': rec}, f, indent=1, default=str)
            print('VIOLATION property=%s replay=%s' % (self.prop, path))
            log('  ', json.dumps(sig, sort_keys=True))
        return 1 if self.violations else 0


def write_evidence(prop, tier, seed, coverage, wall_s, violations, assumptions=None, level='exploration', extra=None):
    os.makedirs(EVID, exist_ok=True)
    ev = {
        'property_id': prop, 'tier': tier, 'seed': int(seed), 'level': level,
        'coverage': coverage, 'wall_s': round(wall_s, 2), 'violations': int(violations),
        'assumptions': assumptions or [],
    }
    if extra:
        ev.update(extra)
    with open(os.path.join(EVID, prop + '.json'), 'w') as f:
        json.dump(ev, f, indent=1, default=str)


def seed_env():
    try:
        return int(os.environ.get('VERIF_SEED', '0'))
    except ValueError:
        return 0
