"""C06 — ziggurat primitives are exact: table equations at the hook (exhaustive), word-layout
probe, and the sampled law per layer / tail against tables recomputed by the oracle."""
import json
import math
import os
import struct
import subprocess
import time

import mpmath as mp
import numpy as np

import cases as C
import lawmon as L
import stats as S
import vlib as V

# published ZIGNOR constants (Doornik 2005) to 17 significant digits: starting points only; the oracle
# solves the closure equation of the 256-layer ziggurat for R itself and never reads the crate's tables
R_NORM_START = mp.mpf('3.6541528853610088')
R_EXP_START = mp.mpf('7.69711747013104972')


def hx(h):
    return struct.unpack('>d', bytes.fromhex(h))[0]


def oracle_tables():
    """x[0..256] for both ziggurats from the defining recursion, 50 digits; R from the closure condition
    V/x[255] + f(x[255]) = f(0) = 1 (the top layer ends exactly at x = 0)"""
    old = mp.mp.dps
    mp.mp.dps = 50
    out = {}
    for name, R0, f, finv, tail in [
        ('norm', R_NORM_START, lambda x: mp.exp(-x * x / 2), lambda y: mp.sqrt(-2 * mp.log(y)), lambda r: mp.sqrt(mp.pi / 2) * mp.erfc(r / mp.sqrt(2))),
        ('exp', R_EXP_START, lambda x: mp.exp(-x), lambda y: -mp.log(y), lambda r: mp.exp(-r)),
    ]:
        def chain(R):
            V_ = R * f(R) + tail(R)
            x = [V_ / f(R), R]
            for i in range(1, 255):
                x.append(finv(V_ / x[i] + f(x[i])))
            return x, V_

        def closure(R):
            x, V_ = chain(R)
            return V_ / x[255] + f(x[255]) - 1
        R = mp.findroot(closure, (R0 * (1 - mp.mpf('1e-9')), R0 * (1 + mp.mpf('1e-9'))), solver='secant', tol=mp.mpf('1e-40'))
        x, V_ = chain(R)
        x.append(mp.mpf(0))
        out[name] = {'x': x, 'V': V_, 'f': f, 'tail': tail, 'R': R}
    mp.mp.dps = old
    return out


def check_tables(dump, orc, ver):
    mp.mp.dps = 50
    n_checked = 0
    for name in ('norm', 'exp'):
        X = [mp.mpf(hx(h)) for h in dump[name + '_x']]
        F = [mp.mpf(hx(h)) for h in dump[name + '_f']]
        R = mp.mpf(hx(dump[name + '_r']))
        o = orc[name]
        f, tail = o['f'], o['tail']

        def bad(what, detail):
            ver.add({'table': name, 'kind': what}, {'table': name, 'what': what, 'detail': detail})
        if len(X) != 257 or len(F) != 257:
            bad('length', [len(X), len(F)])
            continue
        if abs(R - o['R']) > mp.mpf('1e-15'):
            bad('R_constant', [float(R), float(o['R'])])
        if X[1] != R:
            bad('X1_is_R', [float(X[1]), float(R)])
        if X[256] != 0:
            bad('X256_is_0', float(X[256]))
        if F[256] != 1:
            bad('F256_is_1', float(F[256]))
        for i in range(256):
            n_checked += 2
            if not X[i] > X[i + 1]:
                bad('X_strictly_decreasing', [i, float(X[i]), float(X[i + 1])])
                break
        for i in range(257):
            n_checked += 1
            if abs(F[i] - f(X[i])) > mp.mpf('1e-14'):
                bad('F_equals_density', [i, float(F[i]), float(f(X[i]))])
                break
        base = R * f(R) + tail(R)
        if abs(X[0] * f(R) - base) > mp.mpf('1e-8') * base:
            bad('base_strip_area', [float(X[0] * f(R)), float(base)])
        for i in range(1, 256):
            n_checked += 1
            area = X[i] * (F[i + 1] - F[i])
            if abs(area - base) > mp.mpf('1e-8') * base:
                bad('layer_area', [i, float(area), float(base)])
                break
        # against the independently recomputed abscissae
        for i in range(257):
            n_checked += 1
            if abs(X[i] - o['x'][i]) > mp.mpf('1e-9'):
                bad('X_vs_recomputed', [i, float(X[i]), float(o['x'][i])])
                break
    return n_checked + 2


def check_probe(binary, orc, seed, ver):
    wd = V.workdir('c06')
    jp = os.path.join(wd, 'probe.json')
    json.dump({'seed': seed}, open(jp, 'w'))
    r = subprocess.run([binary, 'zigprobe', jp], capture_output=True, text=True, timeout=600)
    rows = json.loads(r.stdout.strip().splitlines()[-1])['rows']
    Xn = [float(v) for v in orc['norm']['x']]
    Xe = [float(v) for v in orc['exp']['x']]
    n = rect = 0
    for layer, ui, uh, fill, xh, w1, eh, w2 in rows:
        u = int(uh, 16)
        x, e = hx(xh), hx(eh)
        n += 2
        if not (math.isfinite(x) and math.isfinite(e) and e >= 0):
            ver.add({'kind': 'zig_nonfinite', 'layer': layer}, {'layer': layer, 'u': uh, 'x': x, 'e': e})
            continue
        if w1 == 1:
            rect += 1
            un = 2.0 * (u / 2.0 ** 52) - 1.0
            want = un * Xn[layer]
            if abs(x - want) > 1e-9 * abs(want) + 1e-300 or abs(x) >= Xn[layer + 1] * (1 + 1e-9) + 1e-300:
                ver.add({'kind': 'zig_rectangle_normal'}, {'layer': layer, 'u': uh, 'x': x, 'want': want, 'x_next': Xn[layer + 1]})
        else:
            # wedge / tail: the result must lie in the layer's band (or beyond R for layer 0), with the sign of u
            if layer > 0 and not (abs(x) <= 13.0):
                ver.add({'kind': 'zig_wedge_normal'}, {'layer': layer, 'u': uh, 'x': x})
        if w2 == 1:
            rect += 1
            ue = u / 2.0 ** 52 + 2.0 ** -53
            want = ue * Xe[layer]
            if abs(e - want) > 1e-9 * abs(want) + 1e-300 or e >= Xe[layer + 1] * (1 + 1e-9) + 1e-300:
                ver.add({'kind': 'zig_rectangle_exp'}, {'layer': layer, 'u': uh, 'e': e, 'want': want, 'x_next': Xe[layer + 1]})
        elif layer == 0 and e < float(orc['exp']['R']) * (1 - 1e-14):
            ver.add({'kind': 'zig_tail_exp'}, {'layer': layer, 'u': uh, 'e': e})
    return {'word_layout_probes': n, 'accepted_in_rectangle': rect}


def run(tier, seed):
    t0 = time.time()
    th = tier == 'thorough'
    binary = V.build('release')
    ver = V.Verdict('C06')
    r = subprocess.run([binary, 'zigdump'], capture_output=True, text=True, timeout=60)
    dump = json.loads(r.stdout.strip().splitlines()[-1])
    orc = oracle_tables()
    n_table = check_tables(dump, orc, ver)
    pcov = check_probe(binary, orc, seed, ver)
    # law: cells = the 256 layer abscissae recomputed by the oracle (x sign), tail beyond R, 1e-6 tails
    cases = []
    for fam, key in (('standard_normal', 'norm'), ('exp1', 'exp')):
        c = C.mk(fam, 'f64', [])
        xs = [float(v) for v in orc[key]['x'][:256]]
        pts = sorted(set(xs + ([-v for v in xs] + [0.0] if key == 'norm' else [])))
        c['extra_thresholds'] = pts
        cases.append(c)
    n = 60_000_000_000 if th else 2_000_000_000
    # probe tables: standard set + the layer abscissae (bypass the cache: build here)
    import reflaw as R
    probes = {}
    for c in cases:
        base = L.build_probe(c, 'thorough')
        law = R.get(c['fam'], c['pv'])
        t = np.unique(np.concatenate([np.array(base['t']), np.array(c['extra_thresholds'])]))
        F, SF = law.cdf(t), law.sf(t)
        n2, p2 = np.nextafter(np.nextafter(t, np.inf), np.inf), np.nextafter(np.nextafter(t, -np.inf), -np.inf)
        br = np.where(F <= 0.5, law.cdf(n2) - law.cdf(p2), law.sf(p2) - law.sf(n2))
        eps = 1e-12 + 1e-9 * np.minimum(F, SF) + 4 * 2.0 ** -53 + np.maximum(br, 0)
        probes[c['id']] = {'thr': [C.encf(float(v)) for v in t], 't': t.tolist(), 'F': F.tolist(), 'SF': SF.tolist(), 'eps': eps.tolist(), 'lattice': False}
    jobs_cases = []
    chunk = 250_000_000
    for c in cases:
        p = probes[c['id']]
        left, k = n, 0
        while left > 0:
            m = min(left, chunk)
            jc = dict(C.strip(c))
            jc.update({'key': c['id'], 'thr': p['thr'], 'n': m, 'seed': C.mix(seed, C.hash_name(c['id']), k, 6), 'gen': 0})
            jobs_cases.append((m, jc))
            left -= m
            k += 1
    wd = V.workdir('c06')
    results = L._run_jobs(jobs_cases, binary, wd, 'zig')
    lawcov = {}
    flagged = []
    for c in cases:
        rr = results[c['id']]
        p = probes[c['id']]
        fl, ns = L.judge_counts(rr['cells'], rr['n'] - rr['nan'], p)
        probs, _ = L.cells_from_probe(p)
        tail_idx = len(p['t'])  # last cell = beyond the largest threshold
        lawcov[c['fam']] = {'draws': rr['n'], 'cells': len(rr['cells']), 'statistics': ns, 'empty_cells': int(np.sum((np.array(rr['cells']) == 0) & (probs * rr['n'] >= 10))), 'stage1_flags': len(fl),
                            'min': rr['min'], 'max': rr['max'], 'nan': rr['nan'], 'pinf': rr['pinf'], 'ninf': rr['ninf'],
                            'kolmogorov_resolution': S.dkw_bound(rr['n'], S.ALPHA1)}
        # count of draws beyond R (tail branch)
        t = np.array(p['t'])
        Rv = float(orc['norm' if c['fam'] == 'standard_normal' else 'exp']['R'])
        beyond = float(np.sum(np.array(rr['cells'])[np.searchsorted(t, Rv) + 1:]))
        lawcov[c['fam']]['draws_beyond_R'] = beyond
        if rr['nan'] or rr['pinf'] or rr['ninf']:
            ver.add({'fam': c['fam'], 'kind': 'nonfinite'}, {'nan': rr['nan'], 'pinf': rr['pinf'], 'ninf': rr['ninf']})
        if fl:
            flagged.append((c, rr['n'], fl))
    confirmed = 0
    if flagged:
        V.log('[C06] stage 1 flagged %d primitive(s); stage 2 with ChaCha12' % len(flagged))
        r2 = L.stage2('C06', flagged, probes, seed, binary, 'zig')
        for c, n1, fl in flagged:
            rr = r2[c['id']]
            p = probes[c['id']]
            for f in fl:
                ok, cnt2 = L.confirm(f, rr['cells'], rr['n'] - rr['nan'], p)
                if ok:
                    confirmed += 1
                    i = f['i']
                    ver.add({'fam': c['fam'], 'kind': 'law', 'statistic': f['kind']},
                            {'case': c['id'], 'statistic': f['kind'], 'index': i, 'threshold': p['t'][min(i, len(p['t']) - 1)], 'stage1': f, 'stage2_count': cnt2, 'n2': rr['n']})
                    break
    rc = ver.finish()
    cov = {
        'evaluations': sum(v['draws'] for v in lawcov.values()) + pcov['word_layout_probes'],
        'distinct_nontrivial': n_table,
        'rule': 'evaluations = sample() results counted by the law monitor + word-layout probes; distinct_nontrivial = table equations checked (each of the 4 x 257 entries and the 2 constants enters several: monotonicity, density, layer area, end points, agreement with the independently recomputed abscissae)',
        'samples': [{'table': 'ZIG_NORM_X[1..3]', 'crate': [hx(h) for h in dump['norm_x'][1:4]], 'oracle': [float(v) for v in orc['norm']['x'][1:4]]},
                    {'table': 'ZIG_EXP_X[1..3]', 'crate': [hx(h) for h in dump['exp_x'][1:4]], 'oracle': [float(v) for v in orc['exp']['x'][1:4]]}],
        'exhaustive': True, 'table_entries': 4 * 257 + 2, 'law': lawcov, 'stage2_confirmed': confirmed,
        'known_findings_hit': {k: v['n'] for k, v in ver.known_hits.items()},
    }
    cov.update(pcov)
    V.write_evidence('C06', tier, seed, cov, time.time() - t0, len(ver.violations),
                     assumptions=['tables read through the cfg(rand_distr_verif) accessors', 'layer abscissae recomputed in 50-digit arithmetic from the published ZIGNOR R constants (not read from the crate)',
                                  'f32 primitives are the rounded f64 primitives (paired monitor of C01)'])
    for fam, v in lawcov.items():
        if v['empty_cells'] or v['draws_beyond_R'] < 1e5:
            V.log('coverage floor not met', fam, v)
            return 1 if rc == 1 else 2  # a violation outranks a missed coverage floor
    return rc
