"""C02 — discrete samplers follow their documented pmf: exact induced law by bisection where the
sampler is a one-word inverse transform (BINV, HIN), two-stage statistical monitor elsewhere."""
import math
import time
from fractions import Fraction

import numpy as np

import cases as C
import lawmon as L
import vlib as V

DISCRETE = C.DISCRETE_F + C.DISCRETE_U
REQUIRED_SIG = {
    'binomial': ['Binv(', 'Btpe(', 'Poisson(', 'Constant(', 'true)', 'false)'],
    'poisson': ['Knuth(', 'Rejection('],
    'hypergeometric': ['InverseTransform', 'RejectionAcceptance', 'sign_x: -#', 'sign_x: #'],
}


def binom_cdf_exact(n, p):
    p = Fraction(p)
    q = 1 - p
    out, acc = [], Fraction(0)
    for k in range(n + 1):
        acc += math.comb(n, k) * p ** k * q ** (n - k)
        out.append(acc)
    return out


def hyper_cdf_exact(N, K, n):
    lo, hi = max(0, n + K - N), min(n, K)
    den = math.comb(N, n)
    out, acc = {}, Fraction(0)
    for k in range(lo, hi + 1):
        acc += Fraction(math.comb(K, k) * math.comb(N - K, n - k), den)
        out[k] = acc
    return lo, hi, out


def exact_cases(tier):
    th = tier == 'thorough'
    out = []
    nmax = 30 if th else 12
    for n in range(0, nmax + 1):
        for p in C.P_GRID:
            if n * min(p, 1 - p) < 10:
                out.append(C.mk('binomial', 'u64', [n, p]))
    Nmax = 40 if th else 16
    for N in range(0, Nmax + 1):
        for K in range(0, N + 1):
            for n in range(0, N + 1):
                out.append(C.mk('hypergeometric', 'u64', [N, K, n]))
    return C.dedup(out)


def run_exact(tier, seed, binary, ver):
    cs = exact_cases(tier)
    wd = V.workdir('c02')
    refs = {}
    jcs = []
    for c in cs:
        if c['fam'] == 'binomial':
            n, p = c['pv']
            cdf = binom_cdf_exact(n, p)
            ks = list(range(0, n + 1))
            refs[c['id']] = (ks, cdf)
        else:
            N, K, n = c['pv']
            lo, hi, cdf = hyper_cdf_exact(N, K, n)
            ks = list(range(lo, hi + 1))
            refs[c['id']] = (ks, [cdf[k] for k in ks])
        jc = dict(C.strip(c))
        jc.update({'thr': [C.encu(k) for k in ks], 'bits': 53})
        jcs.append(jc)
    jobs = [{'cases': sh, 'verif_seed': seed, '_bin': binary} for sh in V.shard(jcs, V.NCPU * 2)]
    events, meta = V.run_shards(None, 'bisect', jobs, wd, 'bis', wall_timeout=3600)
    tol = Fraction(1, 2 ** 40)
    n_ok = n_na = pts = calls = 0
    worst = Fraction(0)
    sigs = set()
    sample = None
    na_list = []
    for e in events:
        if e.get('ev') == 'bisect_na':
            n_na += 1
            if len(na_list) < 5:
                na_list.append(e['case']['id'])
        elif e.get('ev') == 'bisect':
            cid = e['case']['id']
            ks, cdf = refs[cid]
            n_ok += 1
            calls += e['calls']
            sigs.add(e['sig'])
            restart = int(e['restart_words'])
            tot = (1 << 53) - restart
            for k, want, cnt in zip(ks, cdf, e['counts']):
                got = Fraction(int(cnt), tot)
                d = abs(got - want)
                pts += 1
                if d > worst:
                    worst = d
                if d > tol:
                    ver.add({'fam': e['case']['fam'], 'kind': 'exact_law', 'params': e['case']['p_human']},
                            {'case': cid, 'k': k, 'words_with_output_le_k': cnt, 'of': str(tot), 'exact_induced_cdf': float(got), 'reference_cdf': float(want), 'abs_diff': float(d), 'restart_words': restart})
                    break
            if sample is None and len(ks) > 3:
                sample = {'case': cid, 'k': ks[1], 'words_with_output_le_k': e['counts'][1], 'of': str(tot), 'reference_cdf': float(cdf[1])}
    return {'exact_cases': n_ok, 'exact_not_applicable_multiword': n_na, 'exact_not_applicable_examples': na_list, 'exact_support_points': pts, 'exact_sample_calls': calls,
            'exact_worst_abs_deviation': float(worst), 'exact_tolerance': float(tol), 'exact_sample': sample, 'exact_signatures': sorted(sigs)}


def run_exact2(tier, seed, binary, ver):
    """exact induced pmf of the two-draw f32 rejection samplers (Zipf, Zeta): all 2^24 proposal patterns, the
    acceptance probability of each located by bisection over the 24-bit acceptance pattern"""
    th = tier == 'thorough'
    cs = [C.mk('zipf', 'f32', p) for p in [(10.0, 1.5), (1000.0, 1 - 2.0 ** -12)]] + [C.mk('zeta', 'f32', [s]) for s in [2.0]]
    if th:
        cs += [C.mk('zipf', 'f32', p) for p in [(10.0, 0.5), (10.0, 1.0), (1000.0, 1.0), (2.0 ** 20, 1 + 2.0 ** -12), (100.5, 2.0), (5.0, 3.0), (2.0 ** 20, 0.0)]]
        cs += [C.mk('zeta', 'f32', [s]) for s in [1.2, 1.5, 3.0, 10.0]]
    wd = V.workdir('c02')
    kmax = 2000
    nsh = V.NCPU
    jobs = []
    for c in cs:
        for k in range(nsh):
            jobs.append({'cases': [C.strip(c)], 'kmax': kmax, 'verif_seed': seed, 'b_lo': k * (1 << 24) // nsh, 'b_hi': (k + 1) * (1 << 24) // nsh, '_bin': binary})
    events, meta = V.run_shards(None, 'exact2', jobs, wd, 'ex2', wall_timeout=7200, resumable=False)
    import reflaw as R
    acc = {}
    calls = 0
    for e in events:
        if e.get('ev') == 'hang':
            raise V.Broken('exact2 hang %r' % e)
        if e.get('ev') != 'exact2':
            continue
        a = acc.setdefault(e['case']['id'], {'A': [0] * (kmax + 2), 'nonmono': 0, 'rej': 0, 'nonfinite': 0})
        a['A'] = [x + int(y) for x, y in zip(a['A'], e['acc'])]
        a['nonmono'] += e['nonmonotone']
        a['rej'] += e['rejected_outright']
        a['nonfinite'] += int(e.get('nonfinite', 0))
        calls += e['calls']
    worst = 0.0
    out = []
    for c in cs:
        a = acc.get(c['id'])
        if a is None:
            continue
        tot = sum(a['A'])
        if a['nonmono'] or tot == 0:
            # acceptance not a prefix of the acceptance patterns: the monitor does not apply to this case
            out.append({'case': c['id'], 'verdict': 'not applicable', 'nonmonotone': a['nonmono']})
            continue
        law = R.get(c['fam'], c['pv'])
        ks = np.arange(1, kmax + 1, dtype=np.float64)
        cdf = np.asarray(law.cdf(ks))
        pm = np.diff(np.concatenate([[0.0], cdf]))
        ph = np.array([a['A'][int(k)] / tot for k in ks])
        tail_h = a['A'][kmax + 1] / tot
        tail = float(law.sf([float(kmax)])[0])
        # f32 arithmetic of the proposal and of the acceptance ratio: a few 2^-24 relative per probability; each
        # boundary between two ranks is located to within a couple of the 2^24 proposal patterns (absolute 2^-22 on a
        # cumulative probability, twice that on a single cell)
        tol = 2.0 ** -16 * pm + 2.0 ** -21
        dev = np.abs(ph - pm) / tol
        cum_dev = np.abs(np.cumsum(ph) - cdf) / (2.0 ** -16 * np.minimum(cdf, 1 - cdf) + 2.0 ** -22)
        w = float(max(dev.max(), cum_dev.max(), abs(tail_h - tail) / (2.0 ** -16 * tail + 2.0 ** -22)))
        worst = max(worst, w)
        out.append({'case': c['id'], 'exact_pmf_head': ph[:4].tolist(), 'reference_pmf_head': pm[:4].tolist(), 'worst_deviation_over_tolerance': w, 'zero_mass_a0': a['A'][0]})
        # exact mass on NaN / infinite outputs against the law's mass beyond the largest f32 (Zeta documents infinite
        # samples for s close to 1: then the reference mass is not negligible and this is judged like any tail)
        nf_mass = a['nonfinite'] / tot
        nf_ref = float(law.sf([3.4028234663852886e38])[0])
        out[-1]['nonfinite_mass_exact'] = nf_mass
        out[-1]['nonfinite_mass_reference'] = nf_ref
        if nf_mass > 2.0 * nf_ref + 2.0 ** -40:
            ver.add({'fam': c['fam'], 'ty': 'f32', 'kind': 'exact_nonfinite_mass', 'params': c['pv']},
                    {'case': c['id'], 'exact_mass_on_nonfinite_outputs': nf_mass, 'reference_mass_beyond_f32_max': nf_ref, 'proposal_patterns_2p24': a['nonfinite'] / 2.0 ** 24})
        if w > 1.0 or a['A'][0] != 0:
            i = int(np.argmax(dev))
            ver.add({'fam': c['fam'], 'ty': 'f32', 'kind': 'exact_law_two_draw', 'params': c['pv']},
                    {'case': c['id'], 'k': int(ks[i]), 'exact_induced_pmf': float(ph[i]), 'reference_pmf': float(pm[i]), 'tolerance': float(tol[i]),
                     'tail_exact': tail_h, 'tail_reference': tail, 'mass_on_rank_0': a['A'][0], 'worst_over_tolerance': w})
    return {'exact2_cases': out, 'exact2_sample_calls': calls, 'exact2_worst_deviation_over_tolerance': worst}


def run(tier, seed):
    t0 = time.time()
    th = tier == 'thorough'
    binary = V.build('release')
    ver = V.Verdict('C02')
    cs = [c for c in C.all_scalar_cases(tier, seed, fams=DISCRETE) if 'law' in c['tags']]
    # H2PE cases among small N (the remaining N <= 40 triples are covered by the statistical monitor)
    rnd = C.Rnd(seed, 0xC02)
    extra = []
    for N in ([40, 39, 36, 33] if th else [40]):
        for K in range(1, N):
            for n in range(1, N):
                if C.hyper_regime(N, K, n) == 'H2PE' and (th or rnd.below(4) == 0):
                    extra.append(C.mk('hypergeometric', 'u64', [N, K, n]))
    cs = C.dedup(cs + extra)
    n = 100_000_000 if th else 4_000_000
    cov = L.check('C02', cs, tier, seed, n, binary, ver)
    xcov = run_exact(tier, seed, binary, ver)
    xcov.update(run_exact2(tier, seed, binary, ver))
    rc = ver.finish()
    missing = []
    for fam, subs in REQUIRED_SIG.items():
        allsig = ' '.join(cov['variant_signatures_seen'].get(fam, [])) + ' ' + ' '.join(xcov['exact_signatures'])
        for s in subs:
            if s not in allsig:
                missing.append(fam + ':' + s)
    fams_seen = set(c['fam'] + '/' + c['ty'] for c in cs)
    coverage = {
        'evaluations': cov['draws'] + xcov['exact_sample_calls'] + xcov['exact2_sample_calls'],
        'distinct_nontrivial': cov['cases_judged'] + xcov['exact_cases'],
        'rule': 'one evaluation = one sample() result observed (cell counter of the statistical monitor, or one bisection call of the exact monitor); distinct_nontrivial = parameter tuples judged: '
                'statistically against the reference pmf, or exactly (every support point, |induced cdf - exact rational cdf| <= 2^-40) where the sampler consumes exactly one word',
        'samples': cov.pop('samples') + [xcov['exact_sample']],
        'families': sorted(fams_seen), 'required_variants_missing': missing, 'exhaustive': False,
        'exact_part_exhaustive_over': 'all (N,K,n) with N <= %d; all n <= %d x 16-point p grid with n*min(p,q) < 10' % ((40, 30) if th else (16, 12)),
    }
    coverage.update(cov)
    coverage.update(xcov)
    coverage['known_findings_hit'] = {k: v['n'] for k, v in ver.known_hits.items()}
    V.write_evidence('C02', tier, seed, coverage, time.time() - t0, len(ver.violations),
                     assumptions=['reference pmfs: exact rationals (small), scipy/mpmath closed forms, Edgeworth expansion for sigma > 1e3 (validated against exact sums in reflaw.selftest)',
                                  'statistical part resolves ~1e-3 (quick) / 3e-5 (thorough) absolute per statistic'])
    # variant names are read off Debug renderings: a renamed internal variant must not break the check, so a missing
    # name is reported in the evidence (and on stderr) but is not fatal; observing too few cases is
    if missing:
        V.log('note: expected variant names not seen in Debug output:', missing)
    if cov['cases_judged'] < 0.9 * len(cs) or xcov['exact_cases'] < 100:
        V.log('coverage floor not met', missing, cov['cases_judged'], len(cs), xcov['exact_cases'], cov['oracle_inconclusive'][:5])
        return 1 if rc == 1 else 2  # a violation outranks a missed coverage floor
    return rc
