"""C13 — exact induced law of the single-draw f32 samplers over all 2^24 uniform values."""
import os
import time

import multiprocessing as mpc

import numpy as np

import cases as C
import reflaw as R
import vlib as V

N = 1 << 24


def c13_cases(tier, seed):
    th = tier == 'thorough'
    out = []
    for fam in C.SINGLE_DRAW:
        cs = [c for c in C.family_cases(fam, 'f32', tier, seed) if 'law' in c['tags']]
        if th:
            out += cs
        else:
            # 9 per family, spread over the grid (fixed switch points first, then every k-th of the rest)
            sp = [c for c in cs if 'special' in c['tags']]
            cs = [c for c in cs if 'special' not in c['tags']]
            pick = cs[:5] + cs[5::max(1, (len(cs) - 5) // 4)][:4] + sp
            out += C.dedup(pick)
    return out


def analyse(args):
    """exact Kolmogorov distance of one dump (runs in a worker process)"""
    fam, pv, path = args
    y32 = np.fromfile(path, dtype='<f4')
    os.remove(path)
    y = y32.astype(np.float64)
    y = y[np.isfinite(y)]
    if len(y) == 0:
        # every one of the 2^24 outputs is NaN / infinite (reported through the support counters): distance 1
        return 1.0, float('nan'), 0, 0.0, len(y32)
    law = R.get(fam, pv)
    d, at, ndist = kolmogorov_exact(y, law)
    u = np.unique(y)
    xf = float(np.max(np.abs(u * law.pdf(u))))
    return d, at, ndist, xf, len(y32)


def kolmogorov_exact(y, law):
    """exact sup |F_N - F| for the N equiprobable outputs y (float64 array, finite)."""
    ys = np.sort(y)
    vals, first = np.unique(ys, return_index=True)
    cnt_le = np.append(first[1:], len(ys)).astype(np.float64)   # number of outputs <= v
    cnt_lt = first.astype(np.float64)                            # number of outputs <  v
    n = float(len(ys))
    F = law.cdf(vals)
    SF = law.sf(vals)
    # use the accurate tail on each side: F_N(v) - F(v) = (1 - F(v)) - (1 - F_N(v)) when F > 1/2
    up = F > 0.5
    d_at = np.where(up, np.abs(SF - (n - cnt_le) / n), np.abs(cnt_le / n - F))
    d_before = np.where(up, np.abs(SF - (n - cnt_lt) / n), np.abs(cnt_lt / n - F))
    i = int(np.argmax(np.maximum(d_at, d_before)))
    return float(max(d_at[i], d_before[i])), float(vals[i]), len(vals)


def run(tier, seed):
    t0 = time.time()
    th = tier == 'thorough'
    cs = c13_cases(tier, seed)
    bins = {'libm': V.build('release')}
    if th:
        bins['std_math'] = V.build('release', std_math=True)
    wd = V.workdir('c13')
    dumpdir = os.path.join(wd, 'dumps')
    os.makedirs(dumpdir, exist_ok=True)
    ver = V.Verdict('C13')
    results = []
    n_na = 0
    outputs_examined = 0
    for math_cfg, b in bins.items():
        # process in waves of NCPU cases to bound disk use (64 MB per dump)
        for w0 in range(0, len(cs), V.NCPU):
            wave = cs[w0:w0 + V.NCPU]
            jobs = [{'cases': [C.strip(c)], 'outdir': dumpdir + '/%s_%d' % (math_cfg, w0 + i), 'verif_seed': seed, '_bin': b} for i, c in enumerate(wave)]
            for j in jobs:
                os.makedirs(j['outdir'], exist_ok=True)
            events, meta = V.run_shards(None, 'sweepdump', jobs, wd, 'sd_%s_%d' % (math_cfg, w0), wall_timeout=1800)
            byid = {c['id']: c for c in wave}
            dumps = [e for e in events if e.get('ev') == 'dump']
            if any(e.get('ev') == 'hang' for e in events):
                raise V.Broken('sweepdump hang')
            todo = [e for e in dumps if e['multiword_calls'] <= 16]
            with mpc.Pool(min(V.NCPU, max(1, len(todo)))) as pool:
                analysed = dict(zip([e['case']['id'] for e in todo], pool.map(analyse, [(byid[e['case']['id']]['fam'], byid[e['case']['id']]['pv'], e['file']) for e in todo])))
            for e in dumps:
                c = byid[e['case']['id']]
                outputs_examined += e['n']
                rec = {'case': c['id'], 'math': math_cfg, 'multiword_calls': e['multiword_calls']}
                if e['panics'] or e['nonfinite'] or e['outside']:
                    ver.add({'fam': c['fam'], 'kind': (e['first_bad'] or {}).get('kind', 'bad'), 'math': math_cfg},
                            {'case': c['id'], 'first_bad': e['first_bad'], 'panics': e['panics'], 'nonfinite': e['nonfinite'], 'outside': e['outside'], 'seed': e['seed']})
                if e['multiword_calls']:
                    # not a single-draw sampler (e.g. a rejection of the extreme draw): how many?
                    rec['note'] = '%d of 2^24 first words led to a second draw' % e['multiword_calls']
                    if e['multiword_calls'] > 16:
                        n_na += 1
                        rec['verdict'] = 'not applicable (more than one word per sample)'
                        results.append(rec)
                        if os.path.exists(e['file']):
                            os.remove(e['file'])
                        continue
                # exact distance; sup |x f(x)| over the reachable outputs (dense: 2^24 points)
                d, at, ndist, xf, _ = analysed[c['id']]
                bound = 2.0 ** -24 * (1.5 + 8.0 * xf)
                rec.update({'kolmogorov_distance': d, 'bound': bound, 'ratio': d / bound, 'at': at, 'distinct_outputs': ndist, 'sup_abs_x_f': xf})
                results.append(rec)
                if d > bound:
                    ver.add({'fam': c['fam'], 'kind': 'kolmogorov_bound', 'math': math_cfg, 'params': c['pv']},
                            {'case': c['id'], 'distance': d, 'bound': bound, 'at': at, 'math': math_cfg})
    rc = ver.finish()
    judged = [r for r in results if 'ratio' in r]
    cov = {
        'evaluations': outputs_examined,
        'distinct_nontrivial': len(judged),
        'rule': 'one evaluation = one sample() call with a chosen 24-bit first-word pattern (all 2^24 per case); distinct_nontrivial = (case, math configuration) pairs whose exact Kolmogorov distance was computed',
        'samples': sorted(judged, key=lambda r: -r['ratio'])[:8],
        'exhaustive': True, 'cases': len(cs), 'math_configurations': sorted(bins), 'not_applicable_cases': n_na,
        'max_ratio_distance_over_bound': max([r['ratio'] for r in judged], default=None),
        'families': sorted(set(c['fam'] for c in cs)),
        'known_findings_hit': {k: v['n'] for k, v in ver.known_hits.items()},
    }
    V.write_evidence('C13', tier, seed, cov, time.time() - t0, len(ver.violations),
                     assumptions=['closed-form CDFs evaluated in float64 with log1p/expm1 tail forms', 'sup|x f(x)| is taken over the 2^24 reachable outputs',
                                  'the (at most 16) first words that lead to a redraw are pushed through with the redraw and counted'])
    if len(judged) < 6 * (6 if not th else 8):
        return 1 if rc == 1 else 2  # a violation outranks a missed coverage floor
    return rc
