"""C01 — continuous samplers follow their documented law (statistical two-stage monitor + exact
bisection for the single-draw f64 families + f32 == round(f64) pairing of the primitives)."""
import json
import os
import subprocess
import time

import numpy as np

import cases as C
import lawmon as L
import reflaw as R
import vlib as V

REQUIRED_SIG = {'gamma': ['Large(', 'One(', 'Small('], 'beta': ['BB(', 'BC(', 'switched_params: true', 'switched_params: false'], 'chi_squared': ['DoFExactlyOne', 'DoFAnythingElse(']}


def bisect_cases(cs, tier):
    out = []
    for c in cs:
        if c['fam'] in C.SINGLE_DRAW and c['ty'] == 'f64':
            out.append(c)
    return out if tier == 'thorough' else out[:40]


def run_bisect(cs, tier, seed, binary, ver):
    wd = V.workdir('c01')
    probes = L.probes_for(cs, tier)
    jcs = []
    for c in cs:
        p = probes[c['id']]
        if 'error' in p:
            continue
        jc = dict(C.strip(c))
        jc.update({'thr': p['thr'], 'bits': 53})
        if c['fam'] == 'cauchy':
            jc['pieces'] = [[0, (1 << 52) + 1], [(1 << 52) + 1, 1 << 53]]
        jcs.append(jc)
    jobs = [{'cases': sh, 'verif_seed': seed, '_bin': binary} for sh in V.shard(jcs, V.NCPU)]
    events, meta = V.run_shards(None, 'bisect', jobs, wd, 'bis', wall_timeout=3600)
    byid = {c['id']: c for c in cs}
    n_ok = n_na = probes_n = calls = 0
    worst = 0.0
    sample = None
    for e in events:
        if e.get('ev') == 'bisect_na':
            n_na += 1
        elif e.get('ev') == 'bisect':
            c = byid[e['case']['id']]
            p = probes[c['id']]
            n_ok += 1
            calls += e['calls']
            cnt = np.array([int(x) for x in e['counts']], dtype=np.float64)
            restart = int(e['restart_words'])
            tot = float((1 << 53) - restart)
            Fhat = cnt / tot
            F = np.array(p['F'])
            SF = np.array(p['SF'])
            eps = np.array(p['eps'])
            # compare on the accurate tail
            dev = np.where(F <= 0.5, np.abs(Fhat - F), np.abs((tot - cnt) / tot - SF))
            probes_n += len(F)
            ratio = dev / eps
            worst = max(worst, float(ratio.max()))
            if sample is None:
                j = len(F) // 3
                sample = {'case': c['id'], 'threshold': p['t'][j], 'words_with_output_le_threshold': e['counts'][j], 'of': '2^53', 'exact_induced_F': float(Fhat[j]), 'reference_F': float(F[j]), 'eps': float(eps[j])}
            bad = np.nonzero(dev > eps)[0]
            if len(bad):
                i = int(bad[np.argmax(ratio[bad])])
                ver.add({'fam': c['fam'], 'ty': c['ty'], 'kind': 'exact_law', 'params': c['pv']},
                        {'case': c['id'], 'threshold': p['t'][i], 'exact_induced_F': float(Fhat[i]), 'reference_F': float(F[i]), 'reference_SF': float(SF[i]), 'eps': float(eps[i]), 'count': e['counts'][i], 'restart_words': restart})
    return {'bisect_cases_exact': n_ok, 'bisect_not_applicable': n_na, 'bisect_probe_points': probes_n, 'bisect_sample_calls': calls, 'bisect_worst_deviation_over_eps': worst, 'bisect_sample': sample}


def run(tier, seed):
    t0 = time.time()
    th = tier == 'thorough'
    binary = V.build('release')
    cs = [c for c in C.all_scalar_cases(tier, seed, fams=C.CONTINUOUS) if 'law' in c['tags']]
    ver = V.Verdict('C01')
    n = 100_000_000 if th else 4_000_000
    # the two primitives everything else is built on get 250x (30x) the draws: their 1e-6 tails are resolved
    extra = {c['id']: (3_000_000_000 if th else 1_000_000_000) for c in cs if c['fam'] in ('standard_normal', 'exp1')}
    cov = L.check('C01', cs, tier, seed, n, binary, ver, extra_n=extra)
    bcov = run_bisect(bisect_cases(cs, tier), tier, seed, binary, ver)
    # f32 primitives are the rounded f64 primitives
    wd = V.workdir('c01')
    jp = os.path.join(wd, 'pair32.json')
    json.dump({'n': 5_000_000 if th else 1_000_000, 'seed': seed}, open(jp, 'w'))
    r = subprocess.run([binary, 'pair32', jp], capture_output=True, text=True, timeout=1800)
    pair = {}
    for line in r.stdout.splitlines():
        e = json.loads(line)
        if e.get('ev') == 'viol':
            ver.add({'fam': e['which'], 'kind': e['kind']}, e)
        elif e.get('ev') == 'pair32':
            pair = e
    if th:
        # std_math configuration for the single-draw families
        b2 = V.build('release', std_math=True)
        sd = [c for c in cs if c['fam'] in C.SINGLE_DRAW]
        cov2 = L.check('C01', sd, tier, seed + 1, 20_000_000, b2, ver, label='_std')
        cov['std_math_single_draw'] = {k: cov2[k] for k in ('cases_judged', 'draws', 'stage1_flags', 'stage2_confirmed_statistics')}
    rc = ver.finish()
    seen_pairs = set()
    for c in cs:
        seen_pairs.add((c['fam'], c['ty']))
    missing = []
    for fam, subs in REQUIRED_SIG.items():
        allsig = ' '.join(cov['variant_signatures_seen'].get(fam, []))
        for s in subs:
            if s not in allsig:
                missing.append(fam + ':' + s)
    coverage = {
        'evaluations': cov['draws'] + bcov['bisect_sample_calls'] + pair.get('pairs', 0),
        'distinct_nontrivial': cov['cases_judged'],
        'rule': 'one evaluation = one sample() result observed by a monitor (cell counter of the law monitor, bisection call, f32/f64 pair); distinct_nontrivial = (family, type, parameter) cases whose cell and tail counts were judged against the reference law',
        'samples': cov.pop('samples'),
        'family_type_pairs': len(seen_pairs), 'required_variants_missing': missing, 'f32_vs_rounded_f64_pairs': pair,
    }
    coverage.update(cov)
    coverage.update(bcov)
    coverage['known_findings_hit'] = {k: v['n'] for k, v in ver.known_hits.items()}
    V.write_evidence('C01', tier, seed, coverage, time.time() - t0, len(ver.violations),
                     assumptions=['reference laws of oracle/reflaw.py (self-test: two routes agree)', 'tolerance eps = eps_ref + 4u + mass within two ulps of the output type around each threshold',
                                  'VIOLATION only if an independent generator family (ChaCha12), 4N draws, confirms at 1e-9 what xoshiro256++ flagged at 1e-7'])
    # variant names are read off Debug renderings: a renamed internal variant must not break the check, so a missing
    # name is reported in the evidence (and on stderr) but is not fatal; observing too few cases is
    if missing:
        V.log('note: expected variant names not seen in Debug output:', missing)
    if len(seen_pairs) < 40 or cov['cases_judged'] < 0.9 * len(cs):
        V.log('coverage floor not met', len(seen_pairs), missing, cov['cases_judged'], len(cs), cov['oracle_inconclusive'][:5])
        return 1 if rc == 1 else 2  # a violation outranks a missed coverage floor
    return rc
