"""Statistical law monitor, offline part (DESIGN.md §3.1): probe thresholds and reference
probabilities from reflaw, sharded harness runs, two-stage exact decision."""
import hashlib
import json
import math
import multiprocessing as mpc
import os
import time

import numpy as np

import cases as C
import reflaw as R
import stats as S
import vlib as V

TAILS = [1e-6, 1e-5, 1e-4, 1e-3, 0.01, 0.05]
QUADRATURE_FAMS = {'nig'}
VERSION = 13  # bump to invalidate cached probe tables


def _round_ty(x, ty):
    return np.float32(x).astype(np.float64) if ty == 'f32' else np.asarray(x, dtype=np.float64)


def _step(x, ty, k):
    """k representable steps (of the output type) away from x (vectorised)"""
    if ty == 'f32':
        v = np.asarray(x, dtype=np.float64).astype(np.float32)
        for _ in range(abs(k)):
            v = np.nextafter(v, np.float32(np.inf if k > 0 else -np.inf))
        return v.astype(np.float64)
    v = np.asarray(x, dtype=np.float64)
    for _ in range(abs(k)):
        v = np.nextafter(v, np.inf if k > 0 else -np.inf)
    return v


def build_probe(case, tier):
    """-> dict(thr=[encoded], t=[float], F=[..], SF=[..], eps=[..], lattice=bool) ; raises on oracle trouble"""
    fam, ty, pv = case['fam'], case['ty'], case['pv']
    law = R.get(fam, pv)
    B = 256 if tier == 'thorough' else 64
    u_in = 2.0 ** -24 if ty == 'f32' else 2.0 ** -53
    eps_ref_abs = 1e-9 if fam in QUADRATURE_FAMS else 1e-12
    if law.lattice:
        lo, hi = law.support
        a = float(law.ppf(np.array([1e-7]))[0])
        b = float(law.ppf(np.array([1 - 1e-7]))[0])
        if hasattr(law, 'mean_sd'):
            m, sd = law.mean_sd()
            a, b = min(a, m - 6 * sd), max(b, m + 6 * sd)
        a = max(math.floor(a) - 2, lo)
        b = min(math.ceil(b) + 2, hi if math.isfinite(hi) else b + 2)
        if b - a <= 400:
            ks = np.arange(a, b + 1, dtype=np.float64)
        else:
            qs = sorted(set(TAILS + [i / B for i in range(1, B)] + [1 - q for q in TAILS]))
            ks = np.unique(np.clip(np.floor(law.ppf(np.array(qs))), a, b))
            # around the centre also every integer of a short window (local distortions such as one wrong pmf value)
            c = float(law.ppf(np.array([0.5]))[0])
            ks = np.unique(np.concatenate([ks, np.arange(max(a, c - 20), min(b, c + 20) + 1)]))
        if ty != 'u64':
            # integers must be exactly representable in the output type
            ks = ks[_round_ty(ks, ty) == ks]
        t = ks
        F = np.asarray(law.cdf(t), dtype=np.float64)
        SF = np.asarray(law.sf(t), dtype=np.float64)
        big = hasattr(law, 'big') and law.big
        loose = bool(getattr(law, 'loose', False) or getattr(getattr(law, 'y', None), 'loose', False))
        eps = (1e-6 if loose else 2e-9 if big else 1e-12) + 1e-9 * np.minimum(F, SF) + 4 * u_in
        enc = [C.encu(int(k)) for k in t] if ty == 'u64' else [C.encf(float(k)) for k in t]
    else:
        qs = sorted(set(TAILS + [i / B for i in range(1, B)] + [1 - q for q in TAILS]))
        x = np.asarray(law.ppf(np.array(qs)), dtype=np.float64)
        extra = structural_points(fam, pv)
        # (d) where quantile inversion under/overflows the type: a log-spaced grid just above a finite lower
        # support bound (from 4 MIN_POSITIVE upwards) and just below a finite upper bound (from 2 ulp downwards)
        lo_s, hi_s = law.support
        minpos = 1.1754943508222875e-38 if ty == 'f32' else 2.2250738585072014e-308
        ulp1 = 2.0 ** -23 if ty == 'f32' else 2.0 ** -52
        if math.isfinite(lo_s):
            sc = max(abs(lo_s), abs(hi_s) if math.isfinite(hi_s) else 0.0, 0.0)
            base = 4 * minpos if lo_s == 0.0 and sc <= 1e30 else max(4 * minpos, 4 * ulp1 * max(abs(lo_s), minpos))
            extra += [lo_s + base * 2.0 ** (12 * k) for k in range(0, 16) if base * 2.0 ** (12 * k) < 1e-3 * max(sc, 1e-300) or k < 3]
        if math.isfinite(hi_s) and math.isfinite(lo_s) and hi_s > lo_s:
            w = hi_s - lo_s
            extra += [hi_s - w * ulp1 * 2.0 ** (4 * k) for k in range(1, 5)]
        x = np.concatenate([x, np.array(extra, dtype=np.float64)]) if extra else x
        x = _round_ty(x[np.isfinite(x)], ty)
        x = x[np.isfinite(x)]
        t = np.unique(x)
        F = np.asarray(law.cdf(t), dtype=np.float64)
        SF = np.asarray(law.sf(t), dtype=np.float64)
        # two representable steps either side; next to zero the steps are subnormal and any intermediate
        # underflow legitimately destroys them, so the window is never narrower than 2 * MIN_POSITIVE
        # (the flush-to-zero resolution of the type)
        minpos = 1.1754943508222875e-38 if ty == 'f32' else 2.2250738585072014e-308
        n2 = np.maximum(_step(t, ty, 2), t + 2 * minpos)
        p2 = np.minimum(_step(t, ty, -2), t - 2 * minpos)
        lower = F <= 0.5
        with np.errstate(invalid='ignore'):
            br = np.where(lower, np.asarray(law.cdf(n2)) - np.asarray(law.cdf(p2)), np.asarray(law.sf(p2)) - np.asarray(law.sf(n2)))
        br = np.where(np.isfinite(br), np.maximum(br, 0.0), 1.0)
        eps = eps_ref_abs + 1e-9 * np.minimum(F, SF) + 4 * u_in + br
        enc = [C.encf(float(v)) for v in t]
    ok = np.isfinite(F) & np.isfinite(SF) & (F >= 0) & (F <= 1) & (SF >= 0) & (SF <= 1) & (np.abs(F + SF - 1.0) < 1e-6)
    # monotone
    keep = []
    last = -1.0
    dropped = 0
    for i in range(len(t)):
        if ok[i] and F[i] >= last - 1e-15:
            keep.append(i)
            last = F[i]
        else:
            dropped += 1
    keep = np.array(keep, dtype=int)
    if len(keep) < 1:
        raise RuntimeError('no usable probe points')
    return {'thr': [enc[i] for i in keep], 't': t[keep].tolist(), 'F': F[keep].tolist(), 'SF': SF[keep].tolist(), 'eps': eps[keep].tolist(),
            'lattice': bool(law.lattice), 'dropped': dropped}


def structural_points(fam, pv):
    if fam in ('standard_normal',):
        return [0.0, 3.6541528853610088, -3.6541528853610088]
    if fam == 'exp1':
        return [7.69711747013104972]
    if fam in ('normal', 'normal_cv', 'cauchy'):
        return [pv[0]]
    if fam in ('student_t',):
        return [0.0]
    if fam in ('triangular', 'pert'):
        return [pv[2]]
    if fam == 'pert_mean':
        return [pv[2], ((pv[3] + 2.0) * pv[2] - pv[0] - pv[1]) / pv[3]]
    if fam == 'skew_normal':
        return [pv[0]]
    return []


def _key(case, tier):
    s = json.dumps([VERSION, case['fam'], case['ty'], case['p'], tier])
    return hashlib.sha1(s.encode()).hexdigest()[:20]


def _probe_worker(cases, tier, outdir):
    for c in cases:
        k = _key(c, tier)
        path = os.path.join(outdir, k + '.json')
        if os.path.exists(path):
            continue
        with open(os.path.join(outdir, 'inprogress_%d' % os.getpid()), 'w') as f:
            f.write(c['id'])
        try:
            p = build_probe(c, tier)
        except Exception as e:  # oracle inconclusive: dropped and counted, never judged
            p = {'error': '%s: %s' % (type(e).__name__, e)}
        tmp = path + '.tmp%d' % os.getpid()
        with open(tmp, 'w') as f:
            json.dump(p, f)
        os.replace(tmp, path)


def probes_for(cases, tier, per_case_timeout=40.0):
    """probe tables for all cases (cached by content hash under work/refcache); returns {id: probe or {'error':..}}"""
    outdir = V.workdir('refcache')
    todo = [c for c in cases if not os.path.exists(os.path.join(outdir, _key(c, tier) + '.json'))]
    if todo:
        t0 = time.time()
        shards = V.shard(todo, V.NCPU)
        procs = []
        for sh in shards:
            p = mpc.Process(target=_probe_worker, args=(sh, tier, outdir))
            p.start()
            procs.append([p, sh, time.time(), None])
        # watchdog: a worker stuck on one case (scipy C loops ignore signals) is killed and restarted after it
        while any(pr[0].is_alive() for pr in procs):
            time.sleep(0.2)
            for pr in procs:
                p, sh, _, _ = pr
                if not p.is_alive():
                    continue
                ip = os.path.join(outdir, 'inprogress_%d' % p.pid)
                try:
                    age = time.time() - os.path.getmtime(ip)
                    cur = open(ip).read()
                except OSError:
                    continue
                if age > per_case_timeout:
                    p.kill()
                    p.join()
                    for c in sh:
                        if c['id'] == cur:
                            with open(os.path.join(outdir, _key(c, tier) + '.json'), 'w') as f:
                                json.dump({'error': 'oracle timeout (> %.0f s)' % per_case_timeout}, f)
                    np_ = mpc.Process(target=_probe_worker, args=(sh, tier, outdir))
                    np_.start()
                    pr[0] = np_
        V.log('[oracle] %d probe tables in %.1fs' % (len(todo), time.time() - t0))
    out = {}
    for c in cases:
        with open(os.path.join(outdir, _key(c, tier) + '.json')) as f:
            out[c['id']] = json.load(f)
    return out


def cells_from_probe(p):
    """cell probabilities and tolerances from threshold tables: cell j = (t[j-1], t[j]]"""
    F = np.array(p['F'])
    SF = np.array(p['SF'])
    eps = np.array(p['eps'])
    m = len(F)
    probs = np.empty(m + 1)
    ce = np.empty(m + 1)
    probs[0] = F[0]
    ce[0] = eps[0]
    probs[m] = SF[m - 1]
    ce[m] = eps[m - 1]
    for j in range(1, m):
        probs[j] = (F[j] - F[j - 1]) if F[j] <= 0.5 else (SF[j - 1] - SF[j])
        ce[j] = eps[j - 1] + eps[j]
    return np.maximum(probs, 0.0), ce


def judge_counts(cells, n, p, alpha=S.ALPHA1):
    """stage-1 flags for one case: per cell (two-sided), per threshold cumulative (the accurate tail), DKW"""
    cells = np.asarray(cells, dtype=np.float64)
    probs, ce = cells_from_probe(p)
    F = np.array(p['F'])
    SF = np.array(p['SF'])
    eps = np.array(p['eps'])
    flags = []
    pv, dr = S.pvalue_two_sided(cells, n, probs, ce)
    for i in np.nonzero(pv < alpha)[0]:
        flags.append({'kind': 'cell', 'i': int(i), 'dir': int(dr[i]), 'p': float(pv[i]), 'count': float(cells[i]), 'expect': float(n * probs[i])})
    L = np.cumsum(cells)[:-1]
    U = n - L
    low = F <= 0.5
    pvl, drl = S.pvalue_two_sided(L, n, F, eps)
    pvu, dru = S.pvalue_two_sided(U, n, SF, eps)
    for i in range(len(F)):
        if low[i] and pvl[i] < alpha:
            flags.append({'kind': 'cum_lower', 'i': i, 'dir': int(drl[i]), 'p': float(pvl[i]), 'count': float(L[i]), 'expect': float(n * F[i])})
        if (not low[i]) and pvu[i] < alpha:
            flags.append({'kind': 'cum_upper', 'i': i, 'dir': int(dru[i]), 'p': float(pvu[i]), 'count': float(U[i]), 'expect': float(n * SF[i])})
    d = np.abs(L / n - F) - eps
    j = int(np.argmax(d))
    if d[j] > S.dkw_bound(n, alpha):
        flags.append({'kind': 'dkw', 'i': j, 'dir': 1 if L[j] / n > F[j] else -1, 'p': 0.0, 'count': float(L[j]), 'expect': float(n * F[j])})
    nstats = len(cells) + len(F) + 1
    return flags, nstats


def confirm(flag, cells2, n2, p, alpha=S.ALPHA2):
    cells2 = np.asarray(cells2, dtype=np.float64)
    probs, ce = cells_from_probe(p)
    F = np.array(p['F'])
    SF = np.array(p['SF'])
    eps = np.array(p['eps'])
    i, d = flag['i'], flag['dir']
    if flag['kind'] == 'cell':
        return S.pvalue_one_sided(cells2[i], n2, probs[i], ce[i], d) < alpha, float(cells2[i])
    L = float(np.sum(cells2[:i + 1]))
    if flag['kind'] in ('cum_lower', 'dkw'):
        return S.pvalue_one_sided(L, n2, F[i], eps[i], d) < alpha, L
    return S.pvalue_one_sided(n2 - L, n2, SF[i], eps[i], d) < alpha, n2 - L


def run_law(prop, cases, tier, seed, n_per_case, binary, tag, chunk=25_000_000, extra_n=None):
    """returns (results, stats) where results[id] = dict(cells, n, nan.., sig) merged over shards"""
    wd = V.workdir(prop.lower())
    probes = probes_for(cases, tier)
    jobs_cases = []
    usable = []
    oracle_inconclusive = []
    for c in cases:
        p = probes[c['id']]
        if 'error' in p:
            oracle_inconclusive.append({'case': c['id'], 'why': p['error']})
            continue
        usable.append(c)
        n = (extra_n or {}).get(c['id'], n_per_case)
        k = 0
        while n > 0:
            m = min(n, chunk)
            jc = dict(C.strip(c))
            jc.update({'key': c['id'], 'thr': p['thr'], 'n': m, 'seed': C.mix(seed, C.hash_name(c['id']), k, 1), 'gen': 0})
            jobs_cases.append((m, jc))
            n -= m
            k += 1
    results = _run_jobs(jobs_cases, binary, wd, tag)
    return results, probes, usable, oracle_inconclusive


def _run_jobs(jobs_cases, binary, wd, tag):
    # balance shards by draw count (longest first)
    jobs_cases.sort(key=lambda x: -x[0])
    nsh = min(V.NCPU * 3, max(1, len(jobs_cases)))
    shards = [[] for _ in range(nsh)]
    load = [0] * nsh
    for m, jc in jobs_cases:
        i = load.index(min(load))
        shards[i].append(jc)
        load[i] += m
    jobs = [{'cases': sh, '_bin': binary} for sh in shards if sh]
    events, meta = V.run_shards(None, 'law', jobs, wd, tag, wall_timeout=7200)
    results = {}
    for e in events:
        if e.get('ev') == 'law':
            r = results.setdefault(e['key'], {'cells': None, 'n': 0, 'nan': 0, 'pinf': 0, 'ninf': 0, 'outside': 0, 'words': 0, 'sig': e['sig'], 'min': math.inf, 'max': -math.inf, 'panics': []})
            c = np.array(e['cells'], dtype=np.float64)
            r['cells'] = c if r['cells'] is None else r['cells'] + c
            for k in ('n', 'nan', 'pinf', 'ninf', 'outside', 'words'):
                r[k] += e[k]
            r['min'] = min(r['min'], float(e['min']))
            r['max'] = max(r['max'], float(e['max']))
        elif e.get('ev') == 'law_panic':
            r = results.setdefault(e['key'], {'cells': None, 'n': 0, 'nan': 0, 'pinf': 0, 'ninf': 0, 'outside': 0, 'words': 0, 'sig': '', 'min': math.inf, 'max': -math.inf, 'panics': []})
            r['panics'].append(e['msg'])
        elif e.get('ev') == 'hang':
            V.log('law monitor: hang', json.dumps(e)[:300])
    return results


def stage2(prop, flagged, probes, seed, binary, tag):
    """flagged: list of (case, n1, flags). Re-run each with ChaCha12, independent seed, 4N draws."""
    wd = V.workdir(prop.lower())
    jobs_cases = []
    for c, n1, _ in flagged:
        p = probes[c['id']]
        n = 4 * n1
        k = 0
        while n > 0:
            m = min(n, 25_000_000)
            jc = dict(C.strip(c))
            jc.update({'key': c['id'], 'thr': p['thr'], 'n': m, 'seed': C.mix(seed, C.hash_name(c['id']), k, 2), 'gen': 1})
            jobs_cases.append((m, jc))
            n -= m
            k += 1
    return _run_jobs(jobs_cases, binary, wd, tag + '_s2')


def check(prop, cases, tier, seed, n_per_case, binary, ver, extra_n=None, label=''):
    """full two-stage law check of `cases`; adds violations to `ver`; returns coverage dict"""
    results, probes, usable, oracle_inc = run_law(prop, cases, tier, seed, n_per_case, binary, 'law' + label, extra_n=extra_n)
    flagged = []
    nstats = draws = 0
    cells_judged = 0
    sigs = {}
    nonfinite = []
    samples = []
    low_expect = 0
    for c in usable:
        r = results.get(c['id'])
        if r is None or r['cells'] is None:
            if r is not None and r['panics']:
                ver.add({'fam': c['fam'], 'ty': c['ty'], 'kind': 'panic_during_law_run'}, {'case': c['id'], 'msg': r['panics'][0]})
            continue
        p = probes[c['id']]
        draws += r['n']
        sigs.setdefault(c['fam'], set()).add(r['sig'])
        if r['nan'] or r['pinf'] or r['ninf'] or r['outside']:
            nonfinite.append({'case': c['id'], 'nan': r['nan'], 'pinf': r['pinf'], 'ninf': r['ninf'], 'outside': r['outside']})
        n_fin = r['n'] - r['nan']
        fl, ns = judge_counts(r['cells'], n_fin, p)
        nstats += ns
        cells_judged += len(r['cells'])
        probs, _ = cells_from_probe(p)
        low_expect += int(np.sum(probs * n_fin < 10))
        if fl:
            flagged.append((c, r['n'], fl))
        if len(samples) < 5:
            j = len(p['t']) // 2
            samples.append({'case': c['id'], 'draws': r['n'], 'threshold': p['t'][j], 'reference_F': p['F'][j], 'observed_F': float(np.sum(r['cells'][:j + 1]) / n_fin), 'eps': p['eps'][j], 'n_thresholds': len(p['t']), 'sig': r['sig'][:80]})
    confirmed = 0
    nflags = sum(len(f) for _, _, f in flagged)
    if flagged:
        V.log('[law] %d case(s) flagged at stage 1 (%d statistics); stage 2 with ChaCha12, 4N' % (len(flagged), nflags))
        r2 = stage2(prop, flagged, probes, seed, binary, 'law' + label)
        for c, n1, fl in flagged:
            rr = r2.get(c['id'])
            if rr is None or rr['cells'] is None:
                continue
            p = probes[c['id']]
            n2 = rr['n'] - rr['nan']
            draws += rr['n']
            worst = None
            for f in fl:
                ok, cnt2 = confirm(f, rr['cells'], n2, p)
                if ok:
                    confirmed += 1
                    if worst is None or f['p'] < worst[0]['p']:
                        worst = (f, cnt2)
            if worst:
                f, cnt2 = worst
                i = f['i']
                ver.add({'fam': c['fam'], 'ty': c['ty'], 'kind': 'law', 'params': c['pv']},
                        {'case': c['id'], 'statistic': f['kind'], 'index': i, 'threshold': p['t'][min(i, len(p['t']) - 1)], 'direction': f['dir'],
                         'stage1': {'count': f['count'], 'expected': f['expect'], 'n': n1, 'p_value': f['p'], 'generator': 'xoshiro256++'},
                         'stage2': {'count': cnt2, 'n': n2, 'generator': 'ChaCha12'}, 'reference_F': p['F'][min(i, len(p['F']) - 1)], 'eps': p['eps'][min(i, len(p['eps']) - 1)],
                         'n_confirmed_statistics': sum(1 for ff in fl if confirm(ff, rr['cells'], n2, p)[0])})
    cov = {
        'cases_judged': len([c for c in usable if c['id'] in results]), 'draws': draws, 'statistics_tested_stage1': nstats, 'cells': cells_judged,
        'cells_with_expected_count_below_10': low_expect, 'stage1_flagged_cases': len(flagged), 'stage1_flags': nflags, 'stage2_confirmed_statistics': confirmed,
        'oracle_inconclusive': oracle_inc, 'nonfinite_or_outside_seen': nonfinite[:20], 'variant_signatures_seen': {k: sorted(v) for k, v in sigs.items()},
        'samples': samples,
    }
    return cov
