"""Parameter envelope E and case grids (DESIGN.md §4).  Fixed a priori; not tuned to results.

A case is a dict {id, fam, ty, p:[encoded], pv:[python values], tags:set}.  Tags:
  law   - usable for law monitors (C01/C02): non-degenerate, reference law computable
  c03   - support/panic/termination workload (C03/C05)
  switch- straddles an internal switch
"""
import math
import struct
import numpy as np

MASK64 = (1 << 64) - 1


def splitmix64(state):
    state = (state + 0x9E3779B97F4A7C15) & MASK64
    z = state
    z = ((z ^ (z >> 30)) * 0xBF58476D1CE4E5B9) & MASK64
    z = ((z ^ (z >> 27)) * 0x94D049BB133111EB) & MASK64
    return state, z ^ (z >> 31)


def mix(*parts):
    s = 0x123456789ABCDEF0
    out = 0
    for p in parts:
        s ^= (int(p) * 0xD6E8FEB86659FD93) & MASK64
        s, out = splitmix64(s)
    return out


class Rnd:
    """Deterministic generator for workload choices (splitmix64)."""

    def __init__(self, *seed):
        self.s = mix(*seed)

    def u64(self):
        self.s, z = splitmix64(self.s)
        return z

    def unit(self):
        return (self.u64() >> 11) / float(1 << 53)

    def below(self, n):
        return self.u64() % n

    def loguniform(self, lo, hi):
        return math.exp(math.log(lo) + self.unit() * (math.log(hi) - math.log(lo)))

    def uniform(self, lo, hi):
        return lo + self.unit() * (hi - lo)

    def choice(self, xs):
        return xs[self.below(len(xs))]


def f64bits(x):
    return struct.unpack('>Q', struct.pack('>d', float(x)))[0]


def bits_f64(b):
    return struct.unpack('>d', struct.pack('>Q', b))[0]


def encf(x):
    return 'f:%016x' % f64bits(x)


def encu(u):
    return 'u:%d' % int(u)


def dec(s):
    if s.startswith('f:'):
        return bits_f64(int(s[2:], 16))
    return int(s[2:])


def r32(x):
    return float(np.float32(x))


def rnd_ty(x, ty):
    return r32(x) if ty == 'f32' else float(x)


def nxt(x, ty, k=1):
    """k-th next representable value in type ty (k may be negative)."""
    if ty == 'f32':
        v = np.float32(x)
        for _ in range(abs(k)):
            v = np.nextafter(v, np.float32(np.inf if k > 0 else -np.inf))
        return float(v)
    v = float(x)
    for _ in range(abs(k)):
        v = math.nextafter(v, math.inf if k > 0 else -math.inf)
    return v


def mk(fam, ty, pv, tags=('law', 'c03')):
    pv2, enc = [], []
    for v in pv:
        if isinstance(v, int) and not isinstance(v, bool):
            pv2.append(v)
            enc.append(encu(v))
        else:
            v = rnd_ty(v, ty)
            pv2.append(v)
            enc.append(encf(v))
    cid = '%s<%s>(%s)' % (fam, ty, ','.join(repr(v) for v in pv2))
    return {'id': cid, 'fam': fam, 'ty': ty, 'p': enc, 'pv': pv2, 'tags': set(tags)}


def strip(c):
    """JSON-able version for the harness."""
    return {'id': c['id'], 'fam': c['fam'], 'ty': c['ty'], 'p': c['p']}


FLOAT_TYS = ('f64', 'f32')
BIG = {'f64': 1e300, 'f32': 1e30}
TINY = {'f64': 1e-300, 'f32': 1e-30}

CONTINUOUS = ['standard_normal', 'normal', 'normal_cv', 'log_normal', 'log_normal_cv', 'pert_mean', 'exp1', 'exp', 'gamma', 'chi_squared', 'student_t',
              'fisher_f', 'beta', 'pert', 'triangular', 'cauchy', 'pareto', 'weibull', 'gumbel', 'frechet',
              'skew_normal', 'inverse_gaussian', 'nig']
DISCRETE_F = ['poisson', 'zipf', 'zeta']
DISCRETE_U = ['binomial', 'geometric', 'standard_geometric', 'hypergeometric']
SINGLE_DRAW = ['cauchy', 'pareto', 'weibull', 'gumbel', 'frechet', 'triangular']


def straddle(x, ty):
    return [nxt(x, ty, -1), rnd_ty(x, ty), nxt(x, ty, 1), x * 0.99, x * 1.01]


def ladder(x, ty):
    """points at geometrically spaced distances either side of a switch value (a band of altered behaviour next
    to a threshold may be as narrow as sqrt(eps) or as wide as a few per cent)"""
    ks = (8, 10, 12, 14, 20) if ty == 'f32' else (12, 20, 27, 33, 40)
    out = []
    for k in ks:
        out += [x * (1 - 2.0 ** -k), x * (1 + 2.0 ** -k)]
    return out


def family_cases(fam, ty, tier, seed):
    """The case grid of one family x float type."""
    th = tier == 'thorough'
    R = (48 if th else 6)
    rnd = Rnd(seed, hash_name(fam), 1 if ty == 'f32' else 2)
    big, tiny = BIG[ty] if ty in BIG else None, TINY[ty] if ty in TINY else None
    out = []

    def add(pv, tags=('law', 'c03')):
        out.append(mk(fam, ty, pv, tags))

    if fam in ('standard_normal', 'exp1'):
        add([])
    elif fam == 'normal':
        for m, s in [(0.0, 1.0), (10.0, 10.0), (-3.5, 1e-3), (1e6, 1.0), (1.0, -2.0), (-big, big / 100), (0.0, tiny), (5.0, 1e3)]:
            add([m, s])
        add([1.5, 0.0], ('c03',))
        add([0.0, -0.0], ('c03',))
        for _ in range(R // 3):
            add([rnd.uniform(-1e3, 1e3), rnd.loguniform(1e-3, 1e3) * rnd.choice([1, 1, -1])])
    elif fam == 'normal_cv':
        for m, cv in [(10.0, 0.5), (1024.0, 1.0 / 256.0), (-3.0, 2.0), (1.0, 1e-3), (1e6, 0.25)]:
            add([m, cv])
        for _ in range(R // 6):
            add([rnd.uniform(-100, 100) or 1.0, rnd.loguniform(1e-3, 10.0)])
    elif fam == 'log_normal_cv':
        for m, cv in [(3.0, 0.5), (1.0, 1.0), (2.718281828, 1.3108324944), (10.0, 0.1), (0.25, 3.0), (1e3, 2.0), (1.0, 1e-3)]:
            add([m, cv])
        for _ in range(R // 6):
            add([rnd.loguniform(1e-3, 1e3), rnd.loguniform(1e-2, 10.0)])
    elif fam == 'pert_mean':
        for mn, mx, mean, sh in [(0.0, 1.0, 0.5, 4.0), (0.0, 1.0, 0.3, 4.0), (2.0, 10.0, 4.0, 1.0), (-1.0, 1.0, 0.25, 8.0), (0.0, 100.0, 20.0, 20.0)]:
            add([mn, mx, mean, sh])
    elif fam == 'log_normal':
        lim = 700.0 if ty == 'f64' else 80.0
        for m, s in [(0.0, 1.0), (0.0, 0.25), (-2.0, 3.0), (5.0, 0.01), (lim * 0.8, lim / 50), (-lim * 0.8, lim / 50), (0.0, lim / 10), (1.0, -0.5)]:
            add([m, s])
        add([2.0, 0.0], ('c03',))
        for _ in range(R // 3):
            s = rnd.loguniform(1e-3, lim / 10)
            add([rnd.uniform(-(lim - 9 * s), lim - 9 * s) * 0.9, s])
    elif fam == 'exp':
        for l in [1.0, 0.5, 3.7, 1e5, 1e-5, tiny, big]:
            add([l])
        add([0.0], ('c03',))
        for _ in range(R // 3):
            add([rnd.loguniform(tiny, big)])
    elif fam == 'gamma':
        kmin, kmax = (1e-3, 1e6) if ty == 'f64' else (1e-2, 1e4)
        ks = straddle(1.0, ty) + [kmin, 0.01, 0.1, 0.5, 2.0, 10.0, 100.0, 1e4, kmax]
        for k in ks + ladder(1.0, ty):
            add([k, 1.0], ('law', 'c03', 'switch'))
        for k, t in [(0.5, 2.0), (3.0, 0.5), (2.0, tiny), (0.3, tiny), (2.0, big / 1e6), (0.3, big / 1e6), (1.0, 1e3), (1.0, tiny), (50.0, 1e-3)]:
            add([k, t])
        for _ in range(R):
            k = rnd.loguniform(kmin, kmax)
            add([k, rnd.loguniform(1e-6, 1e6)])
        # beyond the envelope (k theta > MAX / 2^10): the rustdoc names overflow to inf there, so inf is
        # accepted by the support predicate, NaN and negative values are not; never used for law checks
        fmax = 1.7976931348623157e308 if ty == 'f64' else 3.4028234e38
        for k, t in [(2e-3, fmax / 1.8), (1e-2, fmax / 4), (0.5, fmax / 2), (1.0, fmax), (30.0, fmax / 8)]:
            add([k, t], ('c03',))
    elif fam == 'chi_squared':
        kmax = 1e6 if ty == 'f64' else 1e4
        for k in straddle(1.0, ty) + straddle(2.0, ty) + [0.01, 0.1, 0.5, 3.0, 10.0, 100.0, kmax]:
            add([k], ('law', 'c03', 'switch'))
        for _ in range(R // 2):
            add([rnd.loguniform(1e-2, kmax)])
    elif fam == 'student_t':
        kmax = 1e6 if ty == 'f64' else 1e4
        # lower bound: the law's own mass beyond MAX (tail ~ x^-nu) must be < 2^-64
        kmin = 0.2 if ty == 'f64' else 1.5
        for k in straddle(1.0, ty) + straddle(2.0, ty) + [kmin, 0.5, 3.0, 5.0, 30.0, 1e3, kmax]:
            if k >= kmin:
                add([k], ('law', 'c03', 'switch'))
        # three points per decade where the law approaches its normal limit (a shortcut 't is normal by now' is wrong
        # by ~1/nu; where the monitor can still resolve that, it must be looked at)
        for k in [10.0, 20.0, 50.0, 101.0, 128.0, 200.0, 500.0]:
            add([k], ('law', 'c03', 'special'))
        for _ in range(R // 2):
            add([rnd.loguniform(kmin, kmax)])
    elif fam == 'fisher_f':
        # denominator dof lower bound: the law's own mass beyond MAX (tail ~ x^(-n/2)) must be < 2^-64
        nmin = 0.2 if ty == 'f64' else 1.5
        pts = [0.1, 1.0, 2.0, 5.0, 100.0, 1e4]
        for m in pts:
            for n in [nmin] + pts[1:]:
                if n < nmin:
                    continue
                if th or (m, n) in [(1.0, 1.0), (2.0, 2.0), (1.0, 5.0), (5.0, 1.0), (0.1, 100.0), (100.0, nmin), (1e4, 1e4), (5.0, 2.0), (2.0, nmin)]:
                    add([m, n], ('law', 'c03', 'switch'))
        for m, n in [(nxt(1.0, ty, 1), 3.0), (nxt(1.0, ty, -1), 3.0), (3.0, nxt(2.0, ty, -1)), (3.0, nxt(2.0, ty, 1))]:
            add([m, n], ('law', 'c03', 'switch'))
        for _ in range(R // 2):
            add([rnd.loguniform(0.1, 1e4), rnd.loguniform(nmin, 1e4)])
    elif fam == 'beta':
        lo, hi = (1e-3, 1e5) if ty == 'f64' else (1e-2, 1e4)
        one = straddle(1.0, ty)[:3]
        for a in one:
            for b in [0.5, 1.0, 2.0]:
                add([a, b], ('law', 'c03', 'switch'))
                add([b, a], ('law', 'c03', 'switch'))
        for a, b in [(2.0, 2.0), (2.0, 3.0), (3.0, 2.0), (0.5, 0.5), (0.5, 0.7), (0.7, 0.5), (lo, lo), (lo, 1.0), (1.0, lo),
                     (lo, hi), (hi, lo), (hi, hi), (0.1, 10.0), (10.0, 0.1), (1.5, 100.0), (100.0, 1.5), (0.01, 0.01), (5.0, 5.0), (1.0, 1.0)]:
            add([a, b])
        for _ in range(R):
            add([rnd.loguniform(lo, hi), rnd.loguniform(lo, hi)])
    elif fam == 'pert':
        bigp = 1e150 if ty == 'f64' else 1e15
        for mn, mx, mo, sh in [(0.0, 1.0, 0.5, 4.0), (0.0, 1.0, 0.0, 4.0), (0.0, 1.0, 1.0, 4.0), (0.0, 1.0, 0.25, 0.0), (-1.0, 1.0, 0.0, 4.0),
                               (2.0, 10.0, 3.0, 1.0), (-bigp, bigp, 0.0, 4.0), (1.0, nxt(1.0, ty, 3), 1.0, 4.0), (0.0, 1.0, 0.9, 1e3),
                               (0.0, 100.0, 1.0, 20.0), (-5.0, -1.0, -1.5, 0.5), (0.0, 1.0, 0.5, 1e-3)]:
            add([mn, mx, mo, sh])
        for _ in range(R // 2):
            mn = rnd.uniform(-100, 100)
            mx = mn + rnd.loguniform(1e-3, 1e3)
            add([mn, mx, rnd.uniform(mn, mx), rnd.loguniform(1e-2, 1e3)])
    elif fam == 'triangular':
        bigp = 1e150 if ty == 'f64' else 1e15
        for mn, mx, mo in [(0.0, 1.0, 0.5), (0.0, 1.0, 0.0), (0.0, 1.0, 1.0), (-1.0, 1.0, 0.0), (2.0, 10.0, 3.0), (-bigp, bigp, 0.0),
                           (0.0, 1.0, nxt(0.0, ty, 1)), (0.0, 1.0, nxt(1.0, ty, -1)), (-5.0, -1.0, -1.5), (1.0, nxt(1.0, ty, 3), nxt(1.0, ty, 1)),
                           (0.0, 100.0, 1.0), (1e6, 1e6 + 1, 1e6 + 0.5)]:
            add([mn, mx, mo])
        # right-angled triangles (mode at an end) on supports that are not the unit interval
        for mn, mx, mo in [(2.0, 10.0, 2.0), (2.0, 10.0, 10.0), (0.0, 0.25, 0.0), (0.0, 0.25, 0.25), (-3.0, 5.0, -3.0), (-3.0, 5.0, 5.0)]:
            add([mn, mx, mo], ('law', 'c03', 'special'))
        add([3.0, 3.0, 3.0], ('c03',))
        for _ in range(R // 2):
            mn = rnd.uniform(-100, 100)
            mx = mn + rnd.loguniform(1e-3, 1e3)
            add([mn, mx, rnd.uniform(mn, mx)])
    elif fam == 'cauchy':
        # scale * tan(pi/2 rounded) ~ scale * 1.6e16 (f64) / 2.3e7 (f32) must stay finite
        for m, s in [(0.0, 1.0), (2.0, 0.5), (-1e6, 3.0), (big, 1.0), (0.0, tiny), (0.0, big / 1e20), (1.0, 1e-3), (-7.0, 100.0)]:
            add([m, s])
        for _ in range(R // 3):
            add([rnd.uniform(-1e3, 1e3), rnd.loguniform(1e-3, 1e3)])
    elif fam == 'pareto':
        smin = 0.1 if ty == 'f64' else 0.25
        bits = 53 if ty == 'f64' else 24
        pts = [(1.0, 1.0), (1.0, 2.0), (1.0, smin), (1.0, 1e3), (2.5, 3.0), (tiny, 1.0), (0.5, 0.5), (1e3, 10.0), (1.0, 5.0)]
        # scale * 2^(bits/shape) must stay finite
        pts.append((big / 2.0 ** (bits / 2.0) / 4, 2.0))
        for sc, sh in pts:
            add([sc, sh])
        # exponent-like parameters next to the identity value (a shortcut for shape == 1 must not capture neighbours)
        for sh in [nxt(1.0, ty, 1), nxt(1.0, ty, -1), 1.0 + 1e-4, 1.0 - 1e-4, 1.0003, 0.9998, 1.01, 0.99, nxt(2.0, ty, 1), nxt(0.5, ty, -1)]:
            add([1.0, sh], ('law', 'c03', 'special'))
        add([2.5, 1.0003], ('law', 'c03', 'special'))
        for _ in range(R // 2):
            add([rnd.loguniform(1e-3, 1e3), rnd.loguniform(smin, 1e3)])
    elif fam == 'weibull':
        kmin = 0.05 if ty == 'f64' else 0.2
        for sc, k in [(1.0, 1.0), (1.0, 2.0), (1.0, kmin), (1.0, 1e3), (2.5, 3.0), (tiny, 1.0), (big / 1e4, 1.0), (0.5, 0.5), (1e3, 10.0), (2.0, 0.2)]:
            add([sc, k])
        for k in [nxt(1.0, ty, 1), nxt(1.0, ty, -1), 1.0 + 1e-4, 1.0 - 1e-4, 1.0003, 0.9998, 1.01, 0.99, nxt(2.0, ty, 1), nxt(0.5, ty, -1)]:
            add([1.0, k], ('law', 'c03', 'special'))
        add([2.5, 0.9998], ('law', 'c03', 'special'))
        for _ in range(R // 2):
            add([rnd.loguniform(1e-3, 1e3), rnd.loguniform(kmin, 1e3)])
    elif fam == 'gumbel':
        for l, s in [(0.0, 1.0), (2.0, 0.5), (-1e6, 3.0), (big, 1.0), (0.0, tiny), (0.0, big / 1e4), (1.0, 1e-3), (-7.0, 100.0)]:
            add([l, s])
        for _ in range(R // 3):
            add([rnd.uniform(-1e3, 1e3), rnd.loguniform(1e-3, 1e3)])
    elif fam == 'frechet':
        # both extreme draws must stay representable: (-ln(1 - 2^-53))^(-1/alpha) < MAX  <=>  alpha > 0.052
        amin = 0.06 if ty == 'f64' else 0.2
        for l, s, a in [(0.0, 1.0, 1.0), (0.0, 1.0, 2.0), (0.0, 1.0, amin), (0.0, 1.0, 1e3), (2.0, 0.5, 3.0), (-1e6, 3.0, 1.0), (0.0, tiny, 1.0),
                        (1.0, 1e-3, 0.5), (-7.0, 100.0, 10.0), (0.0, 1.0, 1.0 / 3.0), (0.0, 1.0, 0.2), (5.0, 2.0, 0.5)]:
            add([l, s, a])
        for a in [nxt(1.0, ty, 1), nxt(1.0, ty, -1), 1.0 + 1e-4, 1.0 - 1e-4, 1.0003, 0.9998, 1.01, 0.99, nxt(2.0, ty, 1), nxt(0.5, ty, -1)]:
            add([0.0, 1.0, a], ('law', 'c03', 'special'))
        add([2.0, 0.5, 1.0003], ('law', 'c03', 'special'))
        for _ in range(R // 2):
            add([rnd.uniform(-1e3, 1e3), rnd.loguniform(1e-3, 1e3), rnd.loguniform(amin, 1e3)])
    elif fam == 'skew_normal':
        for sh in [0.0, -0.0, 1.0, -1.0, nxt(1.0, ty, 1), nxt(-1.0, ty, 1), 0.5, -0.5, 3.0, -3.0, 20.0, 1e3, -1e3, 1e-3]:
            add([0.0, 1.0, sh], ('law', 'c03', 'switch'))
        for l, s, sh in [(10.0, 10.0, 2.0), (-3.5, 1e-3, -2.0), (1e6, 1.0, 1.0), (0.0, tiny, 0.0), (0.0, big / 100, 5.0)]:
            add([l, s, sh])
        for _ in range(R // 2):
            add([rnd.uniform(-1e3, 1e3), rnd.loguniform(1e-3, 1e3), rnd.uniform(-10, 10)])
    elif fam == 'inverse_gaussian':
        pts = [1e-3, 0.03, 1.0, 30.0, 1e3]
        for m in pts:
            for l in pts:
                if th or (m, l) in [(1.0, 1.0), (1e-3, 1e-3), (1e3, 1e3), (1.0, 30.0), (30.0, 1.0), (1e3, 1.0), (1.0, 1e3), (1e-3, 1.0), (1e3, 1e-3), (1e-3, 1e3)]:
                    add([m, l])
        for _ in range(R // 2):
            add([rnd.loguniform(1e-3, 1e3), rnd.loguniform(1e-3, 1e3)])
    elif fam == 'nig':
        for a, bf in [(1.0, 0.0), (1.0, 0.5), (1.0, -0.5), (2.0, 0.99), (2.0, -0.99), (1e-2, 0.0), (1e-2, 0.5), (1e2, 0.0), (1e2, 0.99), (1e2, -0.9), (0.5, 0.1), (10.0, -0.3)]:
            add([a, a * bf])
        for _ in range(R // 2):
            a = rnd.loguniform(1e-2, 1e2)
            add([a, a * rnd.uniform(-0.99, 0.99)])
    elif fam == 'poisson':
        lmax = 1e15 if ty == 'f64' else 2.0 ** 20
        for l in straddle(12.0, ty) + ladder(12.0, ty) + [12.5, 13.0, 14.0, 15.0, 16.0, 18.0, 22.0, 27.0] + [1e-3, 0.1, 1.0, 3.0, 10.0, 20.0, 50.0, 100.0, 1e3, 1e5, 1e7 if ty == 'f64' else 2.0 ** 18, lmax]:
            add([l], ('law', 'c03', 'switch'))
        # derived field exp(-lambda) rounds to exactly 1: sampler must still return 0 and serialise
        for l in ([1e-17, 1e-300] if ty == 'f64' else [1e-8, 1e-30]):
            add([l], ('c03', 'switch'))
        # C03/C05 only: up to MAX_LAMBDA (integers are not exact any more, the law is not judged)
        if ty == 'f64':
            for l in [1e17, 1.8e19, 1.844e19]:
                add([l], ('c03',))
        else:
            for l in [1e9, 1e15, 1.8e19]:
                add([l], ('c03',))
        for _ in range(R // 2):
            add([rnd.loguniform(1e-3, lmax)])
    elif fam == 'zipf':
        nmax = 1e15 if ty == 'f64' else 2.0 ** 20
        for n, s in [(1.0, 0.0), (1.0, 1.0), (1.0, 2.0), (2.0, 0.0), (2.0, 1.0), (10.0, 0.0), (10.0, 0.5), (10.0, nxt(1.0, ty, -1)), (10.0, 1.0), (10.0, nxt(1.0, ty, 1)),
                     (10.0, 2.0), (10.0, 1e2), (1000.0, 1.0), (1000.0, 1.5), (1000.0, 0.3), (nmax, 1.0), (nmax, 2.0), (nmax, 0.5), (nmax, 0.0),
                     (1.5, 1.0), (7.5, 0.7), (100.5, 2.0), (3.0, 1e2), (5.0, 3.0)]:
            add([n, s], ('law', 'c03', 'switch'))
        for s in ladder(1.0, ty):
            add([1e7 if ty == 'f64' else 2.0 ** 20, s], ('law', 'c03', 'switch'))
            add([1000.0, s], ('law', 'c03', 'switch'))
        add([10.0, math.inf], ('c03', 'switch'))
        add([math.inf, 2.0], ('c03',))
        for _ in range(R // 2):
            n = rnd.loguniform(1, nmax)
            if rnd.below(2):
                n = math.floor(n)
            add([max(n, 1.0), rnd.choice([rnd.uniform(0, 3), rnd.loguniform(1e-2, 1e2)])])
    elif fam == 'zeta':
        smin = 1.05 if ty == 'f64' else 1.2
        for s in [smin, 1.5, 2.0, 3.0, 5.0, 10.0, 50.0]:
            add([s])
        for s in ([1.0 + 1e-9, 1.001, 1.01, 1e2] if ty == 'f64' else [1.0 + 1e-6, 1.01, 1.1, 1e2]):
            add([s], ('c03',))
        for _ in range(R // 3):
            add([1.0 + rnd.loguniform(smin - 1.0, 49.0)])
    else:
        raise KeyError(fam)
    return dedup(out)


def hash_name(s):
    h = 1469598103934665603
    for ch in s.encode():
        h = ((h ^ ch) * 1099511628211) & MASK64
    return h


def dedup(cases):
    seen, out = set(), []
    for c in cases:
        k = (c['fam'], c['ty'], tuple(c['p']))
        if k not in seen:
            seen.add(k)
            out.append(c)
    return out


P_GRID = [0.0, 1e-20, 1e-9, 0.01, 0.1, 0.25, 1.0 / 3.0, math.nextafter(0.5, 0), 0.5, math.nextafter(0.5, 1), 2.0 / 3.0, 0.9, 0.99, 1 - 1e-9, 1 - 2.0 ** -53, 1.0]


def discrete_u_cases(fam, tier, seed):
    th = tier == 'thorough'
    R = 48 if th else 6
    rnd = Rnd(seed, hash_name(fam), 3)
    out = []

    def add(pv, tags=('law', 'c03')):
        out.append(mk(fam, 'u64', pv, tags))

    if fam == 'standard_geometric':
        add([])
    elif fam == 'geometric':
        for p in [2.0 / 3.0, math.nextafter(2.0 / 3.0, 0), math.nextafter(2.0 / 3.0, 1), 0.9, 0.99, 1.0, 0.5, 0.3, 0.29, 0.2, 0.1, 0.05, 0.01, 1e-3, 1e-5, 1e-9, 1e-12]:
            add([p], ('law', 'c03', 'switch'))
        # tiny p: k >= 32 (powf branch); results ~1/p up to 2^63: law judged where mean < 2^62
        for p in [1e-15, 2.0 ** -53, 1e-17]:
            add([p], ('law', 'c03', 'switch'))
        # every change of k: the constructor squares pi = 1 - p until it drops below 1/2, i.e. k changes at
        # p ~ ln2 / 2^k; k >= 32 switches the remainder's acceptance to the powf branch
        for k in ([1, 2, 3, 8, 16, 30, 31, 32, 33, 40, 52] if th else [1, 8, 31, 32, 33, 40]):
            pk = math.log(2.0) / 2.0 ** k
            for f in (0.75, 0.99, 1.01):
                add([pk * f], ('law', 'c03', 'switch'))
        add([0.0], ('c03',))
        add([2.0 ** -60], ('c03',))
        for _ in range(R // 2):
            add([rnd.loguniform(1e-12, 1.0)])
    elif fam == 'binomial':
        # BTPE / BINV threshold n*min(p,q) = 10
        for n, p in [(100, 0.1), (100, math.nextafter(0.1, 0)), (100, math.nextafter(0.1, 1)), (100, 0.9), (20, 0.5), (19, 0.5), (21, 0.5), (1000, 0.5),
                     (1000, 0.01), (1000, 0.0101), (10 ** 6, 0.3), (10 ** 6, 1e-5), (10 ** 9, 0.5), (2 ** 32, 0.25), (2 ** 53, 0.5), (2 ** 62, 0.4), (2 ** 62, 0.5),
                     (2 ** 62, 1e-15), (2 ** 40, 2.0 ** -54), (10 ** 12, 1e-20), (5, 0.5), (30, 0.3), (1, 0.5), (0, 0.5), (12, 1.0), (12, 0.0), (50, 0.21), (50, 0.79),
                     (25, 0.4), (40, math.nextafter(0.5, 1)), (2 ** 62, 1 - 1e-3), (10 ** 4, 0.999)]:
            add([n, p], ('law', 'c03', 'switch'))
        # BINV (n p < 10, 1 - p != 1) with huge n
        for n, p in [(2 ** 55, 2.0 ** -52), (2 ** 50, 2.0 ** -47), (10 ** 12, 5e-12), (2 ** 40, 3e-12), (2 ** 33, 1e-9), (2 ** 62, 2.0 ** -59), (10 ** 15, 9.9e-15)]:
            add([n, p], ('law', 'c03', 'switch'))
        for n, p in [(1000, 1e-20), (5, 1e-18), (7, 1 - 2.0 ** -53)]:
            add([n, p], ('c03', 'switch'))
        for n, p in [(2 ** 63, 0.5), (2 ** 64 - 1, 0.3), (2 ** 64 - 1, 1e-19), (2 ** 64 - 1, 1 - 1e-10), (2 ** 64 - 2, 0.9), (2 ** 64 - 1, 1.0), (2 ** 64 - 1, 0.0), (2 ** 64 - 1, 2.0 ** -64)]:
            add([n, p], ('c03',))
        for _ in range(R):
            n = int(rnd.loguniform(1, 2.0 ** 62))
            p = rnd.choice([rnd.unit(), rnd.loguniform(1e-20, 1.0), 1 - rnd.loguniform(1e-12, 1.0)])
            add([n, min(max(p, 0.0), 1.0)])
    elif fam == 'hypergeometric':
        for N, K, n in [(100, 50, 50), (100, 50, 49), (101, 50, 50), (101, 51, 50), (1000, 20, 500), (1000, 980, 500), (1000, 500, 20), (1000, 500, 980),
                        (10 ** 4, 5000, 5000), (10 ** 4, 300, 7000), (10 ** 6, 10 ** 5, 10 ** 3), (10 ** 6, 500000, 500000), (2 ** 40, 2 ** 39, 2 ** 20), (2 ** 40, 2 ** 39, 2 ** 39), (2 ** 40, 1000, 2 ** 39),
                        (2 ** 30, 2 ** 20, 2 ** 20), (60, 30, 30), (60, 25, 35), (45, 22, 23), (200, 22, 100), (200, 20, 100), (200, 18, 100), (500, 250, 250), (10 ** 4, 30, 300), (10 ** 5, 200, 50000),
                        (10, 5, 5), (40, 20, 20), (41, 20, 21), (20, 0, 10), (20, 20, 10), (20, 10, 0), (20, 10, 20), (1, 1, 1), (0, 0, 0)]:
            add([N, K, n], ('law', 'c03', 'switch'))
        # H2PE with a small variance: consecutive K sweep the fractional part of the mean across the mode (the hat
        # centre, the acceptance reference point and the HIN / H2PE choice are integer functions of the parameters)
        for K in range(100, 130):
            add([1000, K, 100], ('law', 'c03', 'switch'))
        for N, K, n in [(1000, 895, 100), (1000, 895, 900), (1000, 105, 900), (1000, 84, 125), (1000, 140, 75), (400, 57, 101), (5000, 333, 211)]:
            add([N, K, n], ('law', 'c03', 'switch'))
        for _ in range(R):
            N = int(rnd.loguniform(2, 2.0 ** 40)) if th or rnd.below(2) else int(rnd.loguniform(2, 1e6))
            K = int(rnd.unit() * (N + 1))
            n = int(rnd.unit() * (N + 1))
            K, n = min(K, N), min(n, N)
            # keep the constructor's O(N) HIN loop affordable: HIN regime only for N <= 2^22
            if hyper_regime(N, K, n) == 'HIN' and N > 2 ** 22:
                N = N % (2 ** 22) + 2
                K, n = K % (N + 1), n % (N + 1)
            add([N, K, n])
    else:
        raise KeyError(fam)
    return dedup(out)


def hyper_regime(N, K, n):
    """Which sampler Hypergeometric::new picks (transcribed to predict constructor cost only)."""
    n1, n2 = (N - K, K) if K > N - K else (K, N - K)
    k = n if n <= N // 2 else N - n
    m = math.floor((k + 1) * (n1 + 1) / (N + 2))
    return 'HIN' if m - max(0, k - n2) < 10 else 'H2PE'


def all_scalar_cases(tier, seed, fams=None, tys=None):
    out = []
    for fam in CONTINUOUS + DISCRETE_F:
        if fams and fam not in fams:
            continue
        for ty in FLOAT_TYS:
            if tys and ty not in tys:
                continue
            out += family_cases(fam, ty, tier, seed)
    for fam in DISCRETE_U:
        if fams and fam not in fams:
            continue
        if tys and 'u64' not in tys:
            continue
        out += discrete_u_cases(fam, tier, seed)
    return out


def multi_cases(tier, seed):
    """unit geometry, Dirichlet and weighted indices as C03/C05 subjects."""
    th = tier == 'thorough'
    rnd = Rnd(seed, 77)
    out = []
    for fam in ['unit_circle', 'unit_disc', 'unit_sphere', 'unit_ball']:
        for ty in FLOAT_TYS:
            out.append(mk(fam, ty, [], ('c03',)))
    for ty in FLOAT_TYS:
        lo, hi = (1e-3, 1e4) if ty == 'f64' else (1e-2, 1e3)
        vecs = [[1.0, 2.0, 3.0], [0.1, 0.1], [0.05, 0.02, 0.1], [nxt(0.1, ty, 1), 0.05], [lo, lo], [lo, hi], [hi, hi, hi], [0.5] * 8, [lo] * 5, [0.1] * 64]
        for _ in range(8 if th else 2):
            n = 2 + rnd.below(12)
            vecs.append([rnd.loguniform(lo, hi) for _ in range(n)])
            vecs.append([rnd.loguniform(lo, 0.1) for _ in range(n)])
        for v in vecs:
            out.append(mk('dirichlet', ty, v, ('c03',)))
    ints = ['u8', 'u16', 'u32', 'u64', 'u128', 'usize', 'i8', 'i16', 'i32', 'i64', 'i128']
    for kind in ['alias', 'tree']:
        for wt in ints:
            small = wt in ('u8', 'i8')
            vecs = [[1], [1, 2, 3], [0, 0, 5, 0], [3, 0, 0, 0, 1, 0, 7], [1] * 9]
            if not small:
                vecs += [[1000, 1, 1, 1], list(range(0, 40)), [rnd.below(100) for _ in range(100)] + [1]]
            else:
                vecs += [[10, 1, 1, 1], [2] * 20]
            for v in vecs:
                c = mk('%s:%s' % (kind, wt), 'u64', [int(x) for x in v], ('c03',))
                out.append(c)
                if kind == 'tree':
                    # the same vectors after a history that mixes accepted with rejected (overflowing) operations
                    out.append(mk('treeh:%s' % wt, 'u64', [int(x) for x in v], ('c03',)))
        for ty in FLOAT_TYS:
            vecs = [[1.0], [1.0, 2.0, 3.0], [0.0, 0.0, 5.0, 0.0], [1e-4, 1e4, 1.0], [0.1] * 10, [1e30, 1.0, 1e-30], [3.0, 0.0, 0.0, 0.0, 1.0, 0.0, 7.0]]
            for _ in range(6 if th else 2):
                vecs.append([rnd.loguniform(1e-4, 1e4) for _ in range(2 + rnd.below(30))])
            for v in vecs:
                c = mk('%s:%s' % (kind, ty), ty, v, ('c03',))
                out.append(c)
    return out
