"""C08 — WeightedAliasIndex encodes and samples exactly the given weights."""
import json
import os
import subprocess
import time

import numpy as np

import stats as S
import vlib as V

TYPES = ['u8', 'i8', 'u16', 'i16', 'u32', 'i32', 'u64', 'i64', 'usize', 'u128', 'i128', 'f32', 'f64']


def run(tier, seed):
    t0 = time.time()
    th = tier == 'thorough'
    bins = {'release': V.build('release'), 'checked': V.build('checked')}
    rel = bins['release']
    wd = V.workdir('c08')
    jobs = []
    for prof, b in bins.items():
        for wt in TYPES:
            jobs.append({'profile': prof, 'seed': seed, 'wt': wt, 'mode': 'exhaustive', 'maxlen': 6 if (th and prof == 'release') else 5 if prof == 'release' else 4, 'cases': [], '_bin': b})
            for sh in range(2 if th else 1):
                jobs.append({'profile': prof, 'seed': seed * 100 + sh, 'wt': wt, 'mode': 'random', 'count': 20000 if th else 2500, 'maxlen': 10000,
                             'n': 20_000_000 if th else 2_000_000, 'sample_every': 250 if not th else 400, 'cases': [], '_bin': b})
    jobs.sort(key=lambda j: -j.get('maxlen', 0) if j['mode'] == 'exhaustive' else 1)
    events, meta = V.run_shards(None, 'c08', jobs, wd, 'c08', wall_timeout=7200, resumable=False)
    ver = V.Verdict('C08')
    vectors = built = tchecks = wchecks = adv = draws = 0
    rejected = {}
    flags = confirmed = stats_n = sampled = 0
    samples = []
    exh = []
    maxlen = 0
    for e in events:
        ev = e.get('ev')
        if ev == 'hang':
            raise V.Broken('C08 harness exceeded its CPU budget: %r' % e)
        if ev in ('alias_exhaustive', 'alias_random'):
            vectors += e['vectors']
            built += e['built']
            tchecks += e['table_checks']
            wchecks += e['weights_checks']
            for k, v in e['rejected'].items():
                rejected[k] = rejected.get(k, 0) + v
            if ev == 'alias_exhaustive':
                exh.append({k: e.get(k) for k in ('wt', 'profile', 'maxlen', 'vectors', 'invalid_injected', 'built')})
            else:
                adv += e['adv_execs']
                maxlen = max(maxlen, e['max_len'])
        elif ev == 'viol':
            import re
            ver.add({'wt': e['wt'], 'kind': e['kind'], 'class': re.sub(r'[-+]?\d[\d.e+-]*', '#', e['msg'])[:100]}, e)
        elif ev == 'alias_counts':
            sampled += 1
            draws += e['n']
            p = np.array(e['law'], dtype=np.float64)
            c = np.array(e['counts'][:-1], dtype=np.float64)
            if e['counts'][-1]:
                ver.add({'wt': e['wt'], 'kind': 'sample_bad_index'}, e)
            wz = np.array([float(w) == 0.0 for w in e['weights']])
            if np.any(wz & (c > 0)):
                ver.add({'wt': e['wt'], 'kind': 'zero_weight_index_returned'}, {'weights': e['weights'][:40]})
            eps = 2.0 ** -52 if e['wt'] != 'f32' else 2.0 ** -22
            fl = S.stage1(c, e['n'], p, eps, with_cum=False)
            stats_n += len(p)
            if fl:
                flags += len(fl)
                jp = os.path.join(wd, 'recount.json')
                json.dump({'wt': e['wt'], 'mode': 'recount', 'n': 4 * e['n'], 'seed': e['seed'] ^ 0x5EED, 'weights': e['weights']}, open(jp, 'w'))
                r = subprocess.run([rel, 'c08', jp], capture_output=True, text=True, timeout=3600)
                rec = json.loads(r.stdout.strip().splitlines()[0])
                c2 = np.array(rec['counts'][:-1], dtype=np.float64)
                for f in fl:
                    if S.stage2(f, c2, rec['n'], p, eps):
                        confirmed += 1
                        ver.add({'wt': e['wt'], 'kind': 'law'}, {'index': f[1], 'stage1_count': float(c[f[1]]), 'n1': e['n'], 'stage2_count': float(c2[f[1]]), 'n2': rec['n'],
                                                                'p_table': float(p[f[1]]), 'weights': e['weights'][:40], 'seed': e['seed']})
            if len(samples) < 4:
                samples.append({'wt': e['wt'], 'weights': e['weights'][:8], 'table_law': e['law'][:8], 'counts': e['counts'][:8], 'n': e['n']})
    rc = ver.finish()
    cov = {
        'evaluations': vectors + draws + adv,
        'distinct_nontrivial': built,
        'rule': 'one evaluation = one weight vector passed to new() (table algebra and weights() checked when accepted), one sample() draw, or one adversarial-stream execution; '
                'distinct_nontrivial = vectors accepted by new() whose table was checked in exact arithmetic (exhaustive vectors are distinct by construction)',
        'samples': samples,
        'exhaustive_parts': exh, 'vectors': vectors, 'accepted': built, 'rejected_by_class': rejected, 'table_algebra_checks': tchecks, 'weights_roundtrip_checks': wchecks,
        'max_vector_length': maxlen, 'sampled_tables': sampled, 'draws': draws, 'adversarial_stream_executions': adv,
        'statistics_tested_stage1': stats_n, 'stage1_flags': flags, 'stage2_confirmed': confirmed,
        'known_findings_hit': {k: v['n'] for k, v in ver.known_hits.items()},
    }
    V.write_evidence('C08', tier, seed, cov, time.time() - t0, len(ver.violations),
                     assumptions=['alias table read through the cfg(rand_distr_verif) accessor', 'sampling is compared with the exact table law, the table with the input weights (so the two failure modes are separated)',
                                  'error-class classification of new() is judged under C04'])
    need = {'InvalidWeight', 'InsufficientNonZero'}
    if built == 0 or sampled < 13 or not need <= set(rejected):
        V.log('coverage floor not met', built, sampled, rejected)
        return 1 if rc == 1 else 2  # a violation outranks a missed coverage floor
    return rc
