"""C12 — unit-geometry samplers are uniform on circle, disc, sphere and ball."""
import time

import numpy as np

import cases as C
import lawmon as L
import stats as S
import vlib as V

# disc / ball: u = r^2 resp. r^3 is uniform on [0,1]; P(u <= t) = t (centre), P(u > 1 - t) = t (shell)
RADIAL_P = [1.1920928955078125e-7, 1e-6, 1e-5, 1e-4, 1e-3, 1e-5, 1e-4, 1e-3]
RADIAL_NAME = ['u<=2^-23', 'u<=1e-6', 'u<=1e-5', 'u<=1e-4', 'u<=1e-3', 'u>1-1e-5', 'u>1-1e-4', 'u>1-1e-3']
FAMS = ['unit_circle', 'unit_disc', 'unit_sphere', 'unit_ball']
GRID = {'unit_circle': 'angle in 64 cells', 'unit_disc': 'r^2 x angle on 16x16', 'unit_sphere': 'z x longitude on 16x16', 'unit_ball': 'r^3 x z/r x longitude on 8x8x8'}


def _jobs(n, seed, gen, tagseed):
    out = []
    for fam in FAMS:
        for ty in ('f32', 'f64'):
            left, k = n, 0
            while left > 0:
                m = min(left, 12_500_000)
                out.append((m, {'fam': fam, 'ty': ty, 'key': '%s<%s>' % (fam, ty), 'n': m, 'seed': C.mix(seed, C.hash_name(fam + ty), k, tagseed), 'gen': gen}))
                left -= m
                k += 1
    return out


def _run(jobs_cases, binary, wd, tag):
    jobs_cases.sort(key=lambda x: -x[0])
    nsh = min(V.NCPU * 2, len(jobs_cases))
    shards = [[] for _ in range(nsh)]
    for i, (m, jc) in enumerate(jobs_cases):
        shards[i % nsh].append(jc)
    events, meta = V.run_shards(None, 'c12', [{'cases': sh, '_bin': binary} for sh in shards], wd, tag, wall_timeout=7200, resumable=False)
    res = {}
    for e in events:
        if e.get('ev') == 'hang':
            raise V.Broken('C12 hang %r' % e)
        if e.get('ev') == 'c12_panic':
            res.setdefault(e['key'], {'panic': e['msg']})
        if e.get('ev') != 'c12':
            continue
        r = res.setdefault(e['key'], {'cells': None, 'radial': np.zeros(8), 'samples': 0, 'nan': 0, 'norm_bad': 0, 'first_bad': None, 'max_norm_err_in_eps': 0.0, 'words': 0})
        c = np.array(e['cells'], dtype=np.float64)
        r['cells'] = c if r['cells'] is None else r['cells'] + c
        r['radial'] = r['radial'] + np.array(e.get('radial', [0] * 8), dtype=np.float64)
        for k in ('samples', 'nan', 'norm_bad', 'words'):
            r[k] += e[k]
        r['max_norm_err_in_eps'] = max(r['max_norm_err_in_eps'], e['max_norm_err_in_eps'])
        r['first_bad'] = r['first_bad'] or e['first_bad']
    return res


def run(tier, seed):
    t0 = time.time()
    th = tier == 'thorough'
    binary = V.build('release')
    wd = V.workdir('c12')
    n = 1_000_000_000 if th else 200_000_000
    res = _run(_jobs(n, seed, 0, 1), binary, wd, 'geo')
    ver = V.Verdict('C12')
    flagged = {}
    rflag = {}
    per = {}
    nstats = 0
    for key, r in res.items():
        fam, ty = key[:-5], key[-4:-1]
        if 'panic' in r:
            ver.add({'fam': fam, 'ty': ty, 'kind': 'panic'}, r)
            continue
        if r['nan']:
            ver.add({'fam': fam, 'ty': ty, 'kind': 'nan'}, {'nan': r['nan']})
        if r['norm_bad']:
            ver.add({'fam': fam, 'ty': ty, 'kind': 'norm'}, {'count': r['norm_bad'], 'first': r['first_bad']})
        ncell = len(r['cells'])
        nfin = r['samples'] - r['nan']
        eps = 1e-6 if ty == 'f32' else 1e-12
        p = np.full(ncell, 1.0 / ncell)
        pv, dr = S.pvalue_two_sided(r['cells'], nfin, p, np.full(ncell, eps))
        nstats += ncell
        idx = np.nonzero(pv < S.ALPHA1)[0]
        per[key] = {'samples': r['samples'], 'cells': ncell, 'grid': GRID[fam], 'min_cell': float(r['cells'].min()), 'max_cell': float(r['cells'].max()), 'expected_per_cell': nfin / ncell,
                    'max_norm_error_in_eps': r['max_norm_err_in_eps'], 'words_per_sample': r['words'] / max(1, r['samples']), 'stage1_flags': int(len(idx))}
        if len(idx):
            flagged[key] = [(int(i), int(dr[i])) for i in idx]
        if fam in ('unit_disc', 'unit_ball'):
            # radial thresholds (not disjoint from the grid: tested on their own); tolerance relative to the
            # probability: the f32 coordinate lattice and the rounded acceptance test move these counts by < 2 %
            rp = np.array(RADIAL_P)
            rtol = rp * (2e-2 if ty == 'f32' else 1e-6)
            pv2, dr2 = S.pvalue_two_sided(r['radial'], nfin, rp, rtol)
            nstats += len(rp)
            per[key]['radial_counts'] = dict(zip(RADIAL_NAME, r['radial'].tolist()))
            per[key]['radial_expected'] = dict(zip(RADIAL_NAME, (rp * nfin).tolist()))
            idx2 = np.nonzero(pv2 < S.ALPHA1)[0]
            if len(idx2):
                rflag[key] = [(int(i), int(dr2[i])) for i in idx2]
    confirmed = 0
    if flagged or rflag:
        jobs = [(m, jc) for m, jc in _jobs(4 * n, seed, 1, 2) if jc['key'] in flagged or jc['key'] in rflag]
        r2 = _run(jobs, binary, wd, 'geo_s2')
        for key, fl in rflag.items():
            rr = r2[key]
            ty = key[-4:-1]
            for i, d in fl:
                if S.pvalue_one_sided(rr['radial'][i], rr['samples'] - rr['nan'], RADIAL_P[i], RADIAL_P[i] * (2e-2 if ty == 'f32' else 1e-6), d) < S.ALPHA2:
                    confirmed += 1
                    ver.add({'fam': key[:-5], 'ty': ty, 'kind': 'law'}, {'sampler': key, 'radial_threshold': RADIAL_NAME[i], 'direction': d, 'stage2_count': float(rr['radial'][i]), 'n2': rr['samples'], 'expected': rr['samples'] * RADIAL_P[i]})
                    break
        for key, fl in flagged.items():
            rr = r2[key]
            ncell = len(rr['cells'])
            eps = 1e-6 if key.endswith('<f32>') else 1e-12
            for i, d in fl:
                if S.pvalue_one_sided(rr['cells'][i], rr['samples'] - rr['nan'], 1.0 / ncell, eps, d) < S.ALPHA2:
                    confirmed += 1
                    ver.add({'fam': key[:-5], 'ty': key[-4:-1], 'kind': 'law'}, {'sampler': key, 'cell': i, 'grid': GRID[key[:-5]], 'direction': d, 'stage2_count': float(rr['cells'][i]), 'n2': rr['samples'], 'expected': rr['samples'] / ncell})
                    break
    rc = ver.finish()
    cov = {
        'evaluations': sum(v['samples'] for v in per.values()),
        'distinct_nontrivial': len(per),
        'rule': 'one evaluation = one sampled point (norm asserted, then binned); distinct_nontrivial = sampler x float type combinations',
        'samples': [dict(sampler=k, **v) for k, v in list(per.items())[:8]],
        'statistics_tested_stage1': nstats, 'stage2_confirmed': confirmed,
        'known_findings_hit': {k: v['n'] for k, v in ver.known_hits.items()},
    }
    V.write_evidence('C12', tier, seed, cov, time.time() - t0, len(ver.violations),
                     assumptions=['cell probabilities of the uniform laws are exact (1/cells); binning done in f64 from the returned coordinates', 'NaN would need two specific words at once and is outside the quantifier'])
    if len(per) < 8:
        return 1 if rc == 1 else 2  # a violation outranks a missed coverage floor
    return rc
