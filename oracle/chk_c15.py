"""C15 — serialised distributions round-trip to equal, identically sampling values."""
import time

import cases as C
import vlib as V

# variants named in the property's quantifier: each must be seen in a round-tripped value's Debug signature
REQUIRED_VARIANTS = {
    'Gamma': ['Large(', 'One(', 'Small('],
    'Beta': ['BB(', 'BC('],
    'Binomial': ['Binv(', 'Btpe(', 'Poisson(', 'Constant('],
    'Poisson': ['Knuth(', 'Rejection('],
}


def run(tier, seed):
    t0 = time.time()
    th = tier == 'thorough'
    cs = [c for c in C.all_scalar_cases(tier, seed) if 'c03' in c['tags']]
    cs += [c for c in C.multi_cases(tier, seed) if c['fam'].startswith(('unit_', 'dirichlet'))]
    b = V.build('release')
    wd = V.workdir('c15')
    shards = V.shard(cs, V.NCPU)
    jobs = [{'cases': [C.strip(c) for c in sh], 'verif_seed': seed, 'weighted': i == 0, '_bin': b} for i, sh in enumerate(shards)]
    events, meta = V.run_shards(None, 'c15', jobs, wd, 'c15', wall_timeout=3600, resumable=False)
    ver = V.Verdict('C15')
    types = {}
    sigs = {}
    values = draws = 0
    last_case = None
    for e in events:
        ev = e.get('ev')
        if ev == 'hang':
            raise V.Broken('C15 hang: %r' % e)
        if ev == 'c15':
            values += e['values']
            draws += e['draws']
            for t, d in e['types'].items():
                dd = types.setdefault(t, {})
                for k, v in d.items():
                    dd[k] = dd.get(k, 0) + v
            for t, s in e['signatures'].items():
                sigs.setdefault(t, set()).update(s)
        elif ev == 'viol':
            ver.add({'type': e['type'], 'kind': e['kind']}, e)
    rc = ver.finish()
    serde_types = sorted(t for t, d in types.items() if d.get('roundtrip_ok') or d.get('failed') or d.get('format_cannot_represent'))
    not_serde = sorted(t for t, d in types.items() if d.get('not_serde') and not d.get('roundtrip_ok'))
    missing_variants = []
    for base, vs in REQUIRED_VARIANTS.items():
        allsig = ' '.join(s for t, ss in sigs.items() if t.startswith(base) for s in ss)
        for v in vs:
            if v not in allsig:
                missing_variants.append(base + ':' + v)
    cov = {
        'evaluations': values,
        'distinct_nontrivial': sum(d.get('roundtrip_ok', 0) for d in types.values()),
        'rule': 'one evaluation = one distribution value pushed through serde_json (to_string, from_str) and, when that succeeds, compared by == / Debug and by 1000 paired draws on clones of one stream; '
                'distinct_nontrivial = values that completed the round trip and all comparisons',
        'samples': [{'type': t, 'outcomes': types[t], 'variant_signatures': sorted(sigs.get(t, []))[:4]} for t in serde_types[:6]],
        'types_implementing_serde': serde_types, 'types_without_serde_not_judged': not_serde,
        'paired_draws': draws, 'format_cannot_represent': sum(d.get('format_cannot_represent', 0) for d in types.values()),
        'required_variants_missing': missing_variants,
        'known_findings_hit': {k: v['n'] for k, v in ver.known_hits.items()},
    }
    V.write_evidence('C15', tier, seed, cov, time.time() - t0, len(ver.violations),
                     assumptions=['serde_json with the float_roundtrip feature as the self-describing format', 'values with non-finite fields cannot be carried by JSON and are not judged'])
    # variant names are read off Debug renderings: a renamed internal variant must not break the check, so a missing
    # name is reported in the evidence (and on stderr) but is not fatal; observing too few cases is
    if missing_variants:
        V.log('note: expected variant names not seen in Debug output:', missing_variants)
    if len(serde_types) < 30:
        V.log('coverage floor not met', missing_variants, len(serde_types))
        return 1 if rc == 1 else 2  # a violation outranks a missed coverage floor
    return rc
