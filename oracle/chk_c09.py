"""C09 — WeightedTreeIndex stays consistent with its weight list under any update history."""
import time

import vlib as V

EX_PARTS = ['ex_u8', 'ex_i8', 'ex_u16', 'ex_f32']
RND_PARTS = ['rnd_u8', 'rnd_i8', 'rnd_u16', 'rnd_i16', 'rnd_u32', 'rnd_i32', 'rnd_u64', 'rnd_i64', 'rnd_usize', 'rnd_u128', 'rnd_i128', 'rnd_f32', 'rnd_f64']
REQUIRED = ['new:Ok', 'new:InvalidWeight', 'new:Overflow', 'push:Ok', 'push:InvalidWeight', 'push:Overflow', 'update:Ok', 'update:InvalidWeight',
            'update:Overflow', 'pop:Some', 'pop:None']


def run(tier, seed):
    t0 = time.time()
    th = tier == 'thorough'
    bins = {'release': V.build('release'), 'checked': V.build('checked')}
    wd = V.workdir('c09')
    jobs = []
    for prof, b in bins.items():
        for part in EX_PARTS:
            jobs.append({'profile': prof, 'seed': seed, 'part': part, 'depth': 4 if ((th and part in ('ex_u8', 'ex_i8')) or (part == 'ex_u8' and prof == 'release')) else 3, 'cases': [], '_bin': b})
        for part in RND_PARTS:
            # several shards of random histories per type
            for sh in range(6 if th else 2):
                jobs.append({'profile': prof, 'seed': seed * 1000 + sh, 'part': part, 'n_hist': 2500 if th else 500, 'hist_len': 1000 if th else 600, 'cases': [], '_bin': b})
    # heaviest jobs first
    jobs.sort(key=lambda j: 0 if j['part'].startswith('ex_') else 1)
    events, meta = V.run_shards(None, 'c09', jobs, wd, 'c09', wall_timeout=7200, resumable=False)
    ver = V.Verdict('C09')
    hist = ops = gets = eqf = 0
    outcomes = {}
    lvl_up = lvl_dn = 0
    types = set()
    samples = []
    exhaustive = []
    for e in events:
        ev = e.get('ev')
        if ev in ('tree_exhaustive', 'tree_random'):
            hist += e['histories']
            ops += e['ops']
            gets += e['get_checks']
            eqf += e['eq_fresh_checks']
            lvl_up += e['level_up']
            lvl_dn += e['level_down']
            types.add(e['wt'])
            for k, v in e['outcomes'].items():
                outcomes[k] = outcomes.get(k, 0) + v
            if ev == 'tree_exhaustive':
                exhaustive.append({k: e[k] for k in ('wt', 'profile', 'depth', 'alphabet', 'starts', 'histories')})
        elif ev == 'viol':
            msg = e['msg']
            # signature: weight type + class of disagreement (numbers stripped)
            import re
            cls = re.sub(r'[-+]?\d[\d.e+-]*', '#', msg)[:120]
            ver.add({'wt': e['wt'], 'kind': e['kind'], 'class': cls}, e)
            if len(samples) < 3:
                samples.append({'start': e['start'], 'history': e['history'][:300], 'msg': msg[:200]})
        elif ev == 'hang':
            raise V.Broken('C09 harness exceeded its CPU budget: %r' % e)
    rc = ver.finish()
    samples.append({'start': '[1, 2]', 'history': '[Push(255), Update(0, 0), Pop, Pop]  (one of the enumerated depth-4 u8 histories; after every op: len, is_empty, is_valid, get(i) for all i, == fresh build)'})
    missing = [r for r in REQUIRED if outcomes.get(r, 0) == 0]
    cov = {
        'evaluations': ops,
        'distinct_nontrivial': hist,
        'rule': 'one evaluation = one operation (new/push/pop/update) applied to implementation and Vec model and followed by the state comparison; '
                'distinct_nontrivial = complete histories (all enumerated histories of the exhaustive part are distinct by construction; random histories are seeded)',
        'samples': samples,
        'exhaustive_parts': exhaustive, 'exhaustive': False,
        'operation_outcome_classes': outcomes, 'required_classes_missing': missing,
        'level_creating_pushes': lvl_up, 'level_destroying_pops': lvl_dn,
        'get_comparisons': gets, 'equal_to_fresh_build_comparisons': eqf, 'weight_types': sorted(types),
        'profiles': sorted(bins), 'known_findings_hit': {k: v['n'] for k, v in ver.known_hits.items()},
    }
    V.write_evidence('C09', tier, seed, cov, time.time() - t0, len(ver.violations),
                     assumptions=['Vec<W> reference model with wide (128-bit / f64) totals', 'float trees: get(i) within 4(h+1)u*T of the model (the rustdoc warns that rounding accumulates)',
                                  'u128/i128 overflow classification is exercised only for weights <= 2^110 (no wider accumulator)'])
    if missing or len(types) < 13 or lvl_up == 0 or lvl_dn == 0:
        V.log('coverage floor not met', missing, sorted(types))
        return 1 if rc == 1 else 2  # a violation outranks a missed coverage floor
    return rc
