"""C03 (support / no panic) and C05 (bounded word consumption / termination) — driver and offline
checker over the `rdv adv` event logs."""
import json
import time

import cases as C
import vlib as V

MEAN_WORDS_BOUND = 24.0


def word_features(word_hex, ty):
    """Semantic classes of an adversarial word: which uniform draws it makes extreme."""
    w = int(word_hex, 16)
    f = []
    t53, t52 = w >> 11, w >> 12
    if t53 == (1 << 53) - 1:
        f.append('u53max')   # OpenClosed01<f64> == 1 ; StandardUniform<f64> == max
    if t53 == 0:
        f.append('u53zero')  # StandardUniform<f64> == 0
    if t52 == 0:
        f.append('u52zero')
    if t52 == (1 << 52) - 1:
        f.append('u52max')
    h = w >> 32
    if (h >> 8) == (1 << 24) - 1:
        f.append('u24max')   # OpenClosed01<f32> == 1
    if (h >> 8) == 0:
        f.append('u24zero')
    if (h >> 9) == 0:
        f.append('u23zero')
    if (h >> 9) == (1 << 23) - 1:
        f.append('u23max')
    if (w & 0xff) == 0:
        f.append('ziglayer0')
    if t52 == (1 << 51):
        f.append('zigu0')    # ziggurat u == 0 exactly: StandardNormal returns 0.0
    return f


def build_cases(tier, seed, prop):
    cs = [c for c in C.all_scalar_cases(tier, seed) if 'c03' in c['tags']]
    cs += C.multi_cases(tier, seed)
    if prop == 'C05':
        cs += extreme_cases(tier, seed)
    else:
        # every small hypergeometric triple: the inverse-transform walk must stop at the end of the support for the
        # largest possible draw whatever the rounding of its pmf terms (support, not only termination)
        for N in range(1, 13 if tier != 'thorough' else 25):
            for K in range(0, N + 1):
                for n in range(0, N + 1):
                    cs.append(C.mk('hypergeometric', 'u64', [N, K, n], ('c03',)))
    return C.dedup(cs)


def extreme_cases(tier, seed):
    """C05 extras: integer extremes, tiny/huge shapes, thresholds +- ulp."""
    out = []
    mk = C.mk
    for n, p in [(2 ** 64 - 1, 0.5), (2 ** 64 - 1, 1e-18), (2 ** 64 - 1, 5e-19), (2 ** 63, 1 - 1e-18), (2 ** 64 - 1, 0.999), (2 ** 63 + 1, 0.25),
                 (2 ** 64 - 1, 1e-3), (10, 0.999999), (2 ** 54, 2.0 ** -54), (2 ** 54, 1 - 2.0 ** -53)]:
        out.append(mk('binomial', 'u64', [n, p], ('c03',)))
    for N, K, n in [(2 ** 64 - 3, 2 ** 63, 2 ** 63), (2 ** 63, 2 ** 62, 2 ** 62), (2 ** 62, 2 ** 61, 2 ** 61 + 1), (2 ** 64 - 3, 2 ** 40, 2 ** 63), (2 ** 50, 2 ** 49, 2 ** 25),
                    (2 ** 52, 2 ** 51, 2 ** 51), (2 ** 53, 2 ** 52, 2 ** 52), (2 ** 54, 2 ** 53, 2 ** 53), (2 ** 56, 2 ** 55, 2 ** 40), (2 ** 57, 2 ** 56, 2 ** 56), (3 * 2 ** 52, 2 ** 52, 2 ** 52)]:
        out.append(mk('hypergeometric', 'u64', [N, K, n], ('c03',)))
    # every small hypergeometric triple (the inverse-transform walk must stop at the end of the support for the
    # largest draw whatever the rounding of its pmf terms)
    for N in range(1, 11 if tier != 'thorough' else 15):
        for K in range(0, N + 1):
            for n in range(0, N + 1):
                out.append(mk('hypergeometric', 'u64', [N, K, n], ('c03',)))
    for ty in C.FLOAT_TYS:
        for k in [C.TINY[ty] * 1e10, 1e-6, 1e-4]:
            out.append(mk('gamma', ty, [k, 1.0], ('c03',)))
            out.append(mk('beta', ty, [k, 1.0], ('c03',)))
            out.append(mk('beta', ty, [k, k], ('c03',)))
            out.append(mk('chi_squared', ty, [k], ('c03',)))
        big = 1e12 if ty == 'f64' else 1e6
        out.append(mk('gamma', ty, [big, 1.0], ('c03',)))
        out.append(mk('beta', ty, [big, big], ('c03',)))
        out.append(mk('beta', ty, [big, 1e-3], ('c03',)))
        # 2ab overflows the type (BB set-up degenerates): sampling must still terminate
        for a, b in ([(1e160, 1e160), (2.0, 1e308), (1e308, 1e308)] if ty == 'f64' else [(1e20, 1e20), (2.0, 3e38), (3e38, 3e38)]):
            out.append(mk('beta', ty, [a, b], ('c03',)))
        out.append(mk('student_t', ty, [big], ('c03',)))
        for s in ([1e3, 1025.0, 2e3, 1e6, 1e300] if ty == 'f64' else [30.0, 129.0, 200.0, 1e6, 1e30]):
            out.append(mk('zeta', ty, [s], ('c03',)))
        out.append(mk('zipf', ty, [C.BIG[ty], 1.5], ('c03',)))
        out.append(mk('zipf', ty, [1e18 if ty == 'f64' else 1e9, 0.01], ('c03',)))
    return out


def run(prop, tier, seed):
    t0 = time.time()
    th = tier == 'thorough'
    cs = build_cases(tier, seed, prop)
    bins = {'release': V.build('release'), 'checked': V.build('checked')}
    if th:
        bins['release+std_math'] = V.build('release', std_math=True)
    wd = V.workdir(prop.lower())
    # choose f32 sweep cases: quick = first two cases of every f32 family/subject; thorough = all
    per_fam = {}
    sweep_ids = set()
    for c in cs:
        if c['ty'] == 'f32':
            k = c['fam']
            per_fam[k] = per_fam.get(k, 0) + 1
            if th or per_fam[k] <= 2:
                sweep_ids.add(c['id'])
    jobs = []
    base = {
        'seeds': list(range(32 if th else 6)), 'positions': 16 if th else 8,
        'random_calls': 100000, 'verif_seed': seed, 'budget_words': 100000,
    }
    for prof, b in bins.items():
        sw = [c for c in cs if c['id'] in sweep_ids]
        nosw = [c for c in cs if c['id'] not in sweep_ids]
        # sweeps only in the release profile at quick tier (same arithmetic; checked adds assertions)
        do_sweep = (prof == 'release') or th
        nsh = V.NCPU * (2 if th else 1)
        for sh in V.shard(nosw + ([] if do_sweep else sw), nsh):
            jobs.append(dict(base, cases=[C.strip(c) for c in sh], sweep_pos=[], profile=prof, _bin=b))
        if do_sweep:
            for sh in V.shard(sw, V.NCPU * (4 if th else 1)):
                jobs.append(dict(base, cases=[C.strip(c) for c in sh], sweep_pos=([0, 1, 2, 3] if th else [0]), profile=prof, _bin=b))
    events, meta = V.run_shards(None, 'adv', jobs, wd, 'adv', wall_timeout=(7200 if th else 1500))
    return judge(prop, tier, seed, cs, events, meta, t0)


def judge(prop, tier, seed, cs, events, meta, t0):
    ver = V.Verdict(prop)
    byid = {c['id']: c for c in cs}
    n_exec = n_calls = n_words = 0
    sigs = {}
    fam_seen = set()
    lattice_applied = set()
    words_hist = {}
    rejection_seen = set()
    inconclusive = []
    sample_cases = []
    n_case_records = 0
    sweeps = 0
    hangs = []
    for e in events:
        ev = e.get('ev')
        if ev == 'case':
            n_case_records += 1
            c = e['case']
            fam_seen.add((c['fam'], c['ty']))
            sigs.setdefault(c['fam'], set()).add(e['sig'])
            r, a, s = e['random'], e['adv'], e['sweep']
            n_exec += r['calls'] + e['adv_execs'] + e['sweep_execs']
            n_calls += r['calls'] + a['calls'] + s['calls']
            n_words += r['words_sum'] + a['words_sum'] + s['words_sum']
            sweeps += 1 if e['sweep_execs'] else 0
            if e['adv_execs']:
                lattice_applied.add((c['fam'], c['ty']))
            h = words_hist.setdefault('%s<%s>' % (c['fam'], c['ty']), {'min': 10 ** 9, 'max': 0, 'mean_max': 0.0})
            if r['calls']:
                h['min'] = min(h['min'], r['words_min'])
                h['max'] = max(h['max'], r['words_max'], a['words_max'], s['words_max'])
                mean = r['words_sum'] / r['calls']
                h['mean_max'] = max(h['mean_max'], round(mean, 3))
                if r['words_max'] > r['words_min']:
                    rejection_seen.add((c['fam'], c['ty']))
                if prop == 'C05':
                    width = len(c['p']) if c['fam'] == 'dirichlet' else 1
                    if mean > MEAN_WORDS_BOUND * width:
                        ver.add({'fam': c['fam'], 'ty': c['ty'], 'kind': 'mean_words', 'params': c['p_human']},
                                {'case': c, 'mean_words': mean, 'bound': MEAN_WORDS_BOUND * width, 'profile': e['profile']})
            if len(sample_cases) < 6 and r['calls']:
                sample_cases.append({'case': c['id'], 'sig': e['sig'], 'random': {k: r[k] for k in ('calls', 'words_min', 'words_max', 'val_min', 'val_max')},
                                     'adv_execs': e['adv_execs'], 'sweep_execs': e['sweep_execs']})
        elif ev == 'viol':
            kind = e['kind']
            c = e['case']
            is_c05 = kind == 'budget'
            if (prop == 'C05') != is_c05:
                continue
            feats = word_features(e['stream']['word'], c['ty']) if e['phase'] != 'random' else ['random']
            sig = {'fam': c['fam'], 'ty': c['ty'], 'kind': kind, 'phase': 'random' if e['phase'] == 'random' else 'single-word',
                   'feats': feats if feats else ['other:' + e['stream']['class'].split(':')[0]], 'params': c['p_human']}
            if e['value'] is not None:
                sig['value'] = e['value'] if e['value'] in ('inf', '-inf', 'NaN') else 'finite'
            ver.add(sig, e)
        elif ev == 'hang':
            hangs.append(e)
            ctx = e.get('ctx') or {}
            if ctx.get('phase') == 'ctor':
                inconclusive.append({'why': 'slow constructor (> cpu budget)', 'case': (ctx.get('case') or {}).get('id')})
            elif prop == 'C05':
                c = ctx.get('case') or {}
                ver.add({'fam': c.get('fam'), 'ty': c.get('ty'), 'kind': 'hang', 'phase': ctx.get('phase'), 'params': c.get('p_human')},
                        {'hang': e})
        elif ev == 'slow':
            c = e['case']
            per_call_us = 1000.0 * e['cpu_ms'] / max(1, e['calls'])
            if prop == 'C05':
                ver.add({'fam': c['fam'], 'ty': c['ty'], 'kind': 'cpu_per_call', 'params': c['p_human']},
                        {'case': c, 'calls': e['calls'], 'cpu_ms': e['cpu_ms'], 'mean_cpu_us_per_call': per_call_us, 'profile': e['profile'],
                         'note': 'random-stream calls average more than 300 us of CPU each (normal: 0.005..5 us)'})
            inconclusive.append({'why': 'case cut short: %.0f us CPU per call' % per_call_us, 'case': c['id']})
        elif ev == 'ctor_err':
            inconclusive.append({'why': 'constructor rejected an envelope case: ' + e['err'], 'case': e['case']['id']})
        elif ev == 'ctor_panic':
            inconclusive.append({'why': 'constructor panicked (reported under C04): ' + e['msg'], 'case': e['case']['id']})
    rc = ver.finish()
    fams_expected = set((c['fam'], c['ty']) for c in cs)
    missing = sorted(fams_expected - fam_seen)
    cov = {
        'evaluations': n_exec,
        'distinct_nontrivial': n_case_records,
        'rule': 'one evaluation = one stream execution (random-stream call, or one (seed, position, lattice word) / (position, 24-bit pattern) adversarial '
                'stream run until the scripted word is consumed); distinct_nontrivial = number of (case, profile) records that completed all phases',
        'samples': sample_cases,
        'sample_calls': n_calls, 'rng_words_consumed': n_words,
        'cases': len(cs), 'profiles': sorted(set(e.get('profile') for e in events if e.get('ev') == 'case')),
        'family_type_pairs_seen': len(fam_seen), 'family_type_pairs_missing': missing,
        'lattice_applied_to_pairs': len(lattice_applied), 'f32_sweeps_2p24': sweeps,
        'variant_signatures_seen': {k: sorted(v) for k, v in sigs.items() if not k.startswith(('alias', 'tree'))},
        'words_per_call': words_hist,
        'rejection_loops_entered': len(rejection_seen),
        'watchdog_hangs': len(hangs), 'restarts': meta['restarts'], 'inconclusive': inconclusive[:40], 'inconclusive_n': len(inconclusive) + meta['inconclusive_shards'],
        'known_findings_hit': {k: v['n'] for k, v in ver.known_hits.items()},
    }
    V.write_evidence(prop, tier, seed, cov, time.time() - t0, len(ver.violations),
                     assumptions=['harness RNG adapters (next_u32 = high half of a 64-bit word)', 'support predicates transcribed from the property statement',
                                  'single-word quantifier: one scripted word per stream, all others from xoshiro256++'])
    if rc == 1:
        return 1
    if missing or n_case_records == 0:
        V.log('coverage floor not met: missing', missing)
        return 2
    return rc
