"""C14 — sampling is a pure function of distribution value and RNG stream."""
import time

import cases as C
import vlib as V


def contiguous(cases, n):
    """split into at most n contiguous chunks (multiples of the history group size 4)"""
    size = max(4, -(-len(cases) // n))
    size += (-size) % 4
    return [cases[i:i + size] for i in range(0, len(cases), size)]


def run(tier, seed):
    t0 = time.time()
    th = tier == 'thorough'
    cs = [c for c in C.all_scalar_cases(tier, seed) if 'c03' in c['tags']] + C.multi_cases(tier, seed)
    if not th:
        # ~10 parameter sets per family x type
        per = {}
        keep = []
        for c in cs:
            k = (c['fam'], c['ty'])
            per[k] = per.get(k, 0) + 1
            if per[k] <= 20:
                keep.append(c)
        cs = keep
    # neighbours in the case order end up in the same process and the same history group: keep the two float types of
    # one family with equal parameters next to each other
    cs.sort(key=lambda c: (c['fam'].split(':')[0], [float(v) for v in c['pv']][:4], c['fam'], c['ty']))
    b = V.build('release')
    wd = V.workdir('c14')
    jobs = [{'cases': [C.strip(c) for c in sh], 'seeds': 16 if th else 8, 'hist_len': 1000, 'group': 4, 'verif_seed': seed, '_bin': b} for sh in contiguous(cs, V.NCPU * 2)]
    # constructors that take long enough (10^5..10^7 loop steps) for concurrent constructions to overlap: kept adjacent in
    # one job so that the concurrent-construction check builds them alternately from 8 threads
    slow = [C.mk('hypergeometric', 'u64', list(p), ('c03',)) for p in [(10 ** 6, 20, 10 ** 5), (10 ** 6, 30, 150000), (4 * 10 ** 6, 9, 2 * 10 ** 6), (3 * 10 ** 6, 5, 10 ** 6)]]
    jobs.append({'cases': [C.strip(c) for c in slow], 'seeds': 2, 'hist_len': 200, 'group': 4, 'verif_seed': seed, '_bin': b})
    cs = cs + slow
    events, meta = V.run_shards(None, 'c14', jobs, wd, 'c14', wall_timeout=7200)
    ver = V.Verdict('C14')
    calls = pairs = hist = replayed = concurrent = boundaries = 0
    seen = set()
    ncase = 0
    for e in events:
        ev = e.get('ev')
        if ev == 'case':
            ncase += 1
            calls += e['calls']
            pairs += e['pairs']
            seen.add((e['case']['fam'], e['case']['ty']))
        elif ev == 'boundaries':
            boundaries += e['located']
        elif ev == 'concurrent':
            concurrent += e['values_built_concurrently']
        elif ev == 'histories':
            hist += e['histories']
            replayed += e['replayed_calls']
        elif ev == 'viol':
            c = e['case']
            ver.add({'fam': c['fam'], 'ty': c['ty'], 'kind': e['kind']}, e)
        elif ev == 'hang':
            ver_c = (e.get('ctx') or {}).get('case', {})
            V.log('hang in C14 (reported by C05):', ver_c.get('id'))
    rc = ver.finish()
    expected = set((c['fam'], c['ty']) for c in cs)
    cov = {
        'evaluations': calls + replayed,
        'distinct_nontrivial': ncase,
        'rule': 'one evaluation = one sample() call that takes part in a comparison (same value twice, clone, rebuilt value, sample_iter, 8 threads vs single thread, call replayed alone from its recorded words); '
                'distinct_nontrivial = distribution values (family x type x parameters) put through all comparisons',
        'samples': [{'history': 'objects %s share one recording RNG in random order for 1000 calls; a spread of <= 400 calls per history is replayed alone from its recorded word slice and must return the same bits and consume exactly those words' % [c['id'] for c in cs[:4]]}],
        'paired_comparisons': pairs, 'acceptance_boundaries_located_exactly_and_recompared': boundaries, 'values_built_concurrently_and_compared': concurrent, 'interleaved_histories': hist, 'calls_replayed_out_of_history': replayed,
        'family_type_pairs': len(seen), 'missing_pairs': sorted(expected - seen),
        'known_findings_hit': {k: v['n'] for k, v in ver.known_hits.items()},
    }
    V.write_evidence('C14', tier, seed, cov, time.time() - t0, len(ver.violations),
                     assumptions=['all components of vector samples are hashed (FNV) and compared', 'threads: 8 scoped threads sharing one &D with private RNGs'])
    if expected - seen or hist == 0:
        return 1 if rc == 1 else 2  # a violation outranks a missed coverage floor
    return rc
