"""Reference laws (DESIGN.md §2.3): CDF / SF / quantiles per family, computed from sources that share
no code with the crate: closed forms transcribed from each type's documentation, scipy.special,
mpmath (Hurwitz zeta), an Edgeworth expansion for huge lattice laws, mixture quadrature for NIG.

Interface:  law = get(fam, pv)  ->  object with
    cdf(x)  sf(x)       numpy-vectorised, float64, accurate in both tails (absolute ~1e-13 or
                        relative ~1e-9 of min(F, 1-F)); for lattice laws P(X <= x), P(X > x)
    ppf(q)              approximate quantile (only used to place thresholds)
    lattice             True for integer-valued laws
    support             (lo, hi)
"""
import math
import warnings

import mpmath as mp
import numpy as np
from scipy import integrate, special, stats

warnings.filterwarnings('ignore')
mp.mp.dps = 40

SQRT2 = math.sqrt(2.0)


def _arr(x):
    return np.atleast_1d(np.asarray(x, dtype=np.float64))


class Law:
    lattice = False
    support = (-math.inf, math.inf)

    def cdf(self, x):
        raise NotImplementedError

    def sf(self, x):
        return 1.0 - self.cdf(x)

    def ppf(self, q):
        """generic bisection on the cdf over the support (float64)"""
        q = _arr(q)
        out = np.empty_like(q)
        for i, qq in enumerate(q):
            out[i] = self._ppf1(float(qq))
        return out

    def _ppf1(self, q):
        lo, hi = self.support
        lo = max(lo, -1e300)
        hi = min(hi, 1e300)
        # bracket in a sign/log scale
        f = (lambda x: float(self.cdf(x)[0]) - q) if q <= 0.5 else (lambda x: (1.0 - q) - float(self.sf(x)[0]))
        a, b = lo, hi
        for _ in range(400):
            if a >= 0:
                m = math.sqrt(max(a, 1e-300) * b) if b / max(a, 1e-300) > 4 else 0.5 * (a + b)
            elif b <= 0:
                m = -math.sqrt(max(-b, 1e-300) * -a) if (-a) / max(-b, 1e-300) > 4 else 0.5 * (a + b)
            else:
                m = 0.0 if (a < -1e-300 and b > 1e-300 and (a < -1 or b > 1) and not (f(0.0) == 0)) else 0.5 * (a + b)
                if m == 0.0:
                    if f(0.0) < 0:
                        a = 0.0
                    else:
                        b = 0.0
                    if a == 0.0 and b <= 1e-300 or b == 0.0 and a >= -1e-300:
                        return 0.0
                    continue
            if not (a < m < b):
                break
            if f(m) < 0:
                a = m
            else:
                b = m
        return 0.5 * (a + b) if math.isfinite(a) and math.isfinite(b) else (a if math.isfinite(a) else b)


# ------------------------------------------------------------------------------ continuous laws

class ScipyLaw(Law):
    def __init__(self, d, support=(-math.inf, math.inf)):
        self.d = d
        self.support = support

    def cdf(self, x):
        return self.d.cdf(_arr(x))

    def sf(self, x):
        return self.d.sf(_arr(x))

    def ppf(self, q):
        q = _arr(q)
        r = np.where(q <= 0.5, self.d.ppf(q), self.d.isf(1.0 - q))
        return r


class NormalLaw(Law):
    def __init__(self, mean, sd):
        self.m, self.s = mean, abs(sd)

    def cdf(self, x):
        return special.ndtr((_arr(x) - self.m) / self.s)

    def sf(self, x):
        return special.ndtr(-(_arr(x) - self.m) / self.s)

    def ppf(self, q):
        return self.m + self.s * special.ndtri(_arr(q))


class LogNormalLaw(Law):
    support = (0.0, math.inf)

    def __init__(self, mu, sigma):
        self.mu, self.s = mu, abs(sigma)

    def _z(self, x):
        x = _arr(x)
        with np.errstate(divide='ignore'):
            return (np.log(np.maximum(x, 0.0)) - self.mu) / self.s

    def cdf(self, x):
        return special.ndtr(self._z(x))

    def sf(self, x):
        return special.ndtr(-self._z(x))

    def ppf(self, q):
        return np.exp(self.mu + self.s * special.ndtri(_arr(q)))


class ExpLaw(Law):
    support = (0.0, math.inf)

    def __init__(self, lam):
        self.l = lam

    def cdf(self, x):
        return -np.expm1(-self.l * np.maximum(_arr(x), 0.0))

    def sf(self, x):
        return np.exp(-self.l * np.maximum(_arr(x), 0.0))

    def ppf(self, q):
        return -np.log1p(-_arr(q)) / self.l


class GammaLaw(Law):
    support = (0.0, math.inf)

    def __init__(self, k, theta):
        self.k, self.t = k, theta

    def cdf(self, x):
        return special.gammainc(self.k, np.maximum(_arr(x), 0.0) / self.t)

    def sf(self, x):
        return special.gammaincc(self.k, np.maximum(_arr(x), 0.0) / self.t)

    def ppf(self, q):
        q = _arr(q)
        r = np.where(q <= 0.5, special.gammaincinv(self.k, q), special.gammainccinv(self.k, 1.0 - q)) * self.t
        # tiny shapes: gammaincinv underflows to 0; small-x asymptotics F ~ x^k / Gamma(k+1)
        small = (r <= 0) | ~np.isfinite(r)
        if np.any(small):
            lg = (np.log(q[small]) + special.gammaln(self.k + 1.0)) / self.k
            r[small] = np.exp(np.maximum(lg, -700.0)) * self.t
        return r


class BetaLaw(Law):
    def __init__(self, a, b, lo=0.0, hi=1.0):
        self.a, self.b, self.lo, self.hi = a, b, lo, hi
        self.support = (lo, hi)

    def _u(self, x):
        return np.clip((_arr(x) - self.lo) / (self.hi - self.lo), 0.0, 1.0)

    def cdf(self, x):
        u = self._u(x)
        return np.where(u <= 0.5, special.betainc(self.a, self.b, u), 1.0 - special.betainc(self.b, self.a, 1.0 - u))

    def sf(self, x):
        # for small u, 1 - u rounds to 1: take the complement of the (accurate) lower tail instead
        u = self._u(x)
        return np.where(u <= 0.5, 1.0 - special.betainc(self.a, self.b, u), special.betainc(self.b, self.a, 1.0 - u))

    def sf_from_one_minus(self, v):
        """P(X > 1 - v) for the standard beta, v tiny (resolves mass next to 1)"""
        return special.betainc(self.b, self.a, _arr(v))

    def ppf(self, q):
        q = _arr(q)
        r = np.where(q <= 0.5, special.betaincinv(self.a, self.b, q), 1.0 - special.betaincinv(self.b, self.a, 1.0 - q))
        return self.lo + (self.hi - self.lo) * r


class StudentTLaw(Law):
    def __init__(self, nu):
        self.nu = nu

    def cdf(self, x):
        return special.stdtr(self.nu, _arr(x))

    def sf(self, x):
        return special.stdtr(self.nu, -_arr(x))

    def ppf(self, q):
        q = _arr(q)
        return np.where(q <= 0.5, special.stdtrit(self.nu, q), -special.stdtrit(self.nu, 1.0 - q))


class FisherFLaw(Law):
    support = (0.0, math.inf)

    def __init__(self, m, n):
        self.m, self.n = m, n

    # F(x) = I_{mx/(mx+n)}(m/2, n/2)
    def cdf(self, x):
        x = np.maximum(_arr(x), 0.0)
        with np.errstate(invalid='ignore'):
            u = self.m * x / (self.m * x + self.n)
        u = np.where(np.isfinite(x), u, 1.0)
        return special.betainc(self.m / 2.0, self.n / 2.0, u)

    def sf(self, x):
        x = np.maximum(_arr(x), 0.0)
        with np.errstate(invalid='ignore'):
            v = self.n / (self.m * x + self.n)
        v = np.where(np.isfinite(x), v, 0.0)
        return special.betainc(self.n / 2.0, self.m / 2.0, v)

    def ppf(self, q):
        q = _arr(q)
        u = np.where(q <= 0.5, special.betaincinv(self.m / 2.0, self.n / 2.0, q), 1.0 - special.betaincinv(self.n / 2.0, self.m / 2.0, 1.0 - q))
        v = np.where(q <= 0.5, 1.0 - u, special.betaincinv(self.n / 2.0, self.m / 2.0, 1.0 - q))
        with np.errstate(divide='ignore'):
            return self.n * u / (self.m * v)


class TriangularLaw(Law):
    def __init__(self, lo, hi, mode):
        self.lo, self.hi, self.c = lo, hi, mode
        self.support = (lo, hi)

    def cdf(self, x):
        x = _arr(x)
        lo, hi, c = self.lo, self.hi, self.c
        r = hi - lo
        out = np.where(x <= lo, 0.0, np.where(x >= hi, 1.0, 0.0))
        m1 = (x > lo) & (x <= c)
        m2 = (x > c) & (x < hi)
        with np.errstate(divide='ignore', invalid='ignore'):
            out = np.where(m1, (x - lo) / r * ((x - lo) / (c - lo) if c > lo else 1.0), out)
            out = np.where(m2, 1.0 - (hi - x) / r * ((hi - x) / (hi - c) if hi > c else 1.0), out)
        return out

    def sf(self, x):
        x = _arr(x)
        lo, hi, c = self.lo, self.hi, self.c
        r = hi - lo
        out = np.where(x <= lo, 1.0, np.where(x >= hi, 0.0, 0.0))
        m1 = (x > lo) & (x <= c)
        m2 = (x > c) & (x < hi)
        with np.errstate(divide='ignore', invalid='ignore'):
            out = np.where(m1, 1.0 - (x - lo) / r * ((x - lo) / (c - lo) if c > lo else 1.0), out)
            out = np.where(m2, (hi - x) / r * ((hi - x) / (hi - c) if hi > c else 1.0), out)
        return out

    def pdf(self, x):
        x = _arr(x)
        lo, hi, c = self.lo, self.hi, self.c
        r = hi - lo
        with np.errstate(divide='ignore', invalid='ignore'):
            up = 2.0 * (x - lo) / (r * (c - lo)) if c > lo else np.zeros_like(x)
            dn = 2.0 * (hi - x) / (r * (hi - c)) if hi > c else np.zeros_like(x)
        return np.where((x >= lo) & (x <= c), up, np.where((x > c) & (x <= hi), dn, 0.0))

    def ppf(self, q):
        q = _arr(q)
        lo, hi, c = self.lo, self.hi, self.c
        r = hi - lo
        fc = (c - lo) / r
        return np.where(q < fc, lo + np.sqrt(q * r * (c - lo)), hi - np.sqrt((1.0 - q) * r * (hi - c)))


class CauchyLaw(Law):
    def __init__(self, med, scale):
        self.m, self.s = med, scale

    def cdf(self, x):
        z = (_arr(x) - self.m) / self.s
        return np.where(z < 0, np.arctan2(1.0, -z) / math.pi, 0.5 + np.arctan(z) / math.pi)

    def sf(self, x):
        z = (_arr(x) - self.m) / self.s
        return np.where(z > 0, np.arctan2(1.0, z) / math.pi, 0.5 - np.arctan(z) / math.pi)

    def pdf(self, x):
        z = (_arr(x) - self.m) / self.s
        return 1.0 / (math.pi * self.s * (1.0 + z * z))

    def ppf(self, q):
        q = _arr(q)
        return self.m + self.s * np.where(q < 0.5, -1.0 / np.tan(math.pi * q), np.where(q > 0.5, 1.0 / np.tan(math.pi * (1.0 - q)), 0.0))


class ParetoLaw(Law):
    def __init__(self, scale, shape):
        self.xm, self.a = scale, shape
        self.support = (scale, math.inf)

    def sf(self, x):
        x = _arr(x)
        with np.errstate(divide='ignore'):
            return np.where(x <= self.xm, 1.0, np.exp(self.a * (np.log(self.xm) - np.log(np.maximum(x, self.xm)))))

    def cdf(self, x):
        x = _arr(x)
        with np.errstate(divide='ignore'):
            return np.where(x <= self.xm, 0.0, -np.expm1(self.a * (np.log(self.xm) - np.log(np.maximum(x, self.xm)))))

    def pdf(self, x):
        x = _arr(x)
        return np.where(x >= self.xm, self.a / x * self.sf(x), 0.0)

    def ppf(self, q):
        return self.xm * np.exp(-np.log1p(-_arr(q)) / self.a)


class WeibullLaw(Law):
    support = (0.0, math.inf)

    def __init__(self, scale, k):
        self.l, self.k = scale, k

    def _z(self, x):
        x = np.maximum(_arr(x), 0.0)
        with np.errstate(divide='ignore', over='ignore'):
            return np.exp(self.k * (np.log(x) - math.log(self.l)))

    def cdf(self, x):
        return -np.expm1(-self._z(x))

    def sf(self, x):
        return np.exp(-self._z(x))

    def pdf(self, x):
        z = self._z(x)
        x = _arr(x)
        with np.errstate(divide='ignore', invalid='ignore'):
            return np.where(x > 0, self.k / x * z * np.exp(-z), 0.0)

    def ppf(self, q):
        return self.l * np.exp(np.log(-np.log1p(-_arr(q))) / self.k)


class GumbelLaw(Law):
    def __init__(self, loc, scale):
        self.m, self.b = loc, scale

    def cdf(self, x):
        z = (_arr(x) - self.m) / self.b
        with np.errstate(over='ignore'):
            return np.exp(-np.exp(-z))

    def sf(self, x):
        z = (_arr(x) - self.m) / self.b
        with np.errstate(over='ignore'):
            return -np.expm1(-np.exp(-z))

    def pdf(self, x):
        z = (_arr(x) - self.m) / self.b
        with np.errstate(over='ignore'):
            return np.exp(-z - np.exp(-z)) / self.b

    def ppf(self, q):
        q = _arr(q)
        return self.m - self.b * np.log(-np.log(q))


class FrechetLaw(Law):
    def __init__(self, loc, scale, alpha):
        self.m, self.s, self.a = loc, scale, alpha
        self.support = (loc, math.inf)

    def _z(self, x):
        y = (_arr(x) - self.m) / self.s
        with np.errstate(divide='ignore', over='ignore', invalid='ignore'):
            return np.where(y > 0, np.exp(-self.a * np.log(np.where(y > 0, y, 1.0))), np.inf)

    def cdf(self, x):
        return np.exp(-self._z(x))

    def sf(self, x):
        return -np.expm1(-self._z(x))

    def pdf(self, x):
        z = self._z(x)
        y = _arr(x) - self.m
        with np.errstate(divide='ignore', invalid='ignore', over='ignore'):
            return np.where(y > 0, self.a / np.where(y > 0, y, 1.0) * z * np.exp(-z), 0.0)

    def ppf(self, q):
        q = _arr(q)
        return self.m + self.s * np.exp(-np.log(-np.log(q)) / self.a)


class SkewNormalLaw(Law):
    """pdf 2/omega phi(z) Phi(alpha z):  F = Phi(z) - 2 T(z, alpha) (Owen's T)."""

    def __init__(self, loc, scale, shape):
        self.xi, self.w, self.al = loc, scale, shape

    def cdf(self, x):
        z = (_arr(x) - self.xi) / self.w
        if self.al >= 0:
            # lower tail is the thin one: F = Phi(z) - 2T(z, a) loses precision for z << 0; use symmetry
            return np.where(z < 0, self._lower(z), 1.0 - self._upper(z))
        return np.where(z > 0, 1.0 - self._upper(z), self._lower(z))

    def sf(self, x):
        z = (_arr(x) - self.xi) / self.w
        return np.where(z > 0, self._upper(z), 1.0 - self._lower(z))

    def _lower(self, z):
        # P(Z <= z) = Phi(z) - 2 T(z, a)
        return np.maximum(special.ndtr(z) - 2.0 * special.owens_t(z, self.al), 0.0)

    def _upper(self, z):
        # P(Z > z) = P(-Z < -z), -Z ~ SN(-a):  Phi(-z) - 2 T(-z, -a) = Phi(-z) + 2 T(z, a)
        return np.maximum(special.ndtr(-z) + 2.0 * special.owens_t(z, self.al), 0.0)


class InverseGaussianLaw(Law):
    support = (0.0, math.inf)

    def __init__(self, mean, shape):
        self.mu, self.l = mean, shape

    def _parts(self, x):
        x = np.maximum(_arr(x), 1e-320)
        s = np.sqrt(self.l / x)
        a = s * (x / self.mu - 1.0)
        b = -s * (x / self.mu + 1.0)
        return a, b

    def cdf(self, x):
        a, b = self._parts(x)
        with np.errstate(over='ignore', invalid='ignore'):
            t2 = np.exp(2.0 * self.l / self.mu + special.log_ndtr(b))
        return np.where(_arr(x) <= 0, 0.0, np.clip(special.ndtr(a) + t2, 0.0, 1.0))

    def sf(self, x):
        a, b = self._parts(x)
        with np.errstate(over='ignore', invalid='ignore'):
            t2 = np.exp(2.0 * self.l / self.mu + special.log_ndtr(b))
        return np.where(_arr(x) <= 0, 1.0, np.clip(special.ndtr(-a) - t2, 0.0, 1.0))

    def pdf(self, x):
        x = _arr(x)
        with np.errstate(divide='ignore', invalid='ignore', over='ignore'):
            return np.where(x > 0, np.sqrt(self.l / (2 * math.pi * x ** 3)) * np.exp(-self.l * (x - self.mu) ** 2 / (2 * self.mu ** 2 * x)), 0.0)


class NigLaw(Law):
    """NormalInverseGaussian(alpha, beta) with delta = 1, mu = 0 as the normal variance-mean mixture
    X = beta Z + sqrt(Z) N,  Z ~ IG(mean 1/gamma, shape 1),  gamma = sqrt(alpha^2 - beta^2)."""

    def __init__(self, alpha, beta):
        self.al, self.be = alpha, beta
        self.g = math.sqrt(alpha * alpha - beta * beta)
        self.ig = InverseGaussianLaw(1.0 / self.g, 1.0)

    def _mix(self, x, upper):
        be = self.be

        def integrand(t):
            # z = exp(t): IG density times conditional normal probability
            z = math.exp(t)
            f = float(self.ig.pdf(z)[0]) * z
            if f == 0.0:
                return 0.0
            arg = (x - be * z) / math.sqrt(z)
            return f * float(special.ndtr(-arg if upper else arg))
        # locate the bulk of the IG law in log space
        m = math.log(1.0 / self.g)
        val, err = integrate.quad(integrand, m - 60, m + 40, limit=400, epsabs=1e-14, epsrel=1e-11, points=[m - 5, m, m + 3])
        return val

    def cdf(self, x):
        return np.array([self._mix(float(v), False) for v in _arr(x)])

    def sf(self, x):
        return np.array([self._mix(float(v), True) for v in _arr(x)])

    def ppf(self, q):
        """approximate quantiles (threshold placement only): empirical quantiles of 2*10^6 variates drawn
        by numpy from the mixture representation, extended by the exponential tail slopes"""
        q = _arr(q)
        rng = np.random.default_rng(20261002)
        z = rng.wald(1.0 / self.g, 1.0, size=2_000_000)
        x = np.sort(self.be * z + np.sqrt(z) * rng.standard_normal(z.size))
        n = x.size
        out = np.empty_like(q)
        for i, qq in enumerate(q):
            if qq < 20.0 / n:
                # lower tail ~ exp((alpha + beta) x): extrapolate from the 1e-4 quantile
                x0 = x[int(1e-4 * n)]
                out[i] = x0 + math.log(qq / 1e-4) / (self.al + self.be)
            elif qq > 1 - 20.0 / n:
                x0 = x[int((1 - 1e-4) * n)]
                out[i] = x0 - math.log((1 - qq) / 1e-4) / (self.al - self.be)
            else:
                out[i] = x[min(n - 1, int(qq * n))]
        return out


# ------------------------------------------------------------------------------ lattice laws

class LatticeLaw(Law):
    lattice = True
    support = (0, math.inf)


class PoissonLaw(LatticeLaw):
    def __init__(self, lam):
        self.lam = lam
        self.big = lam > 1e6

    def cdf(self, k):
        k = np.floor(_arr(k))
        if self.big:
            return edgeworth_cdf(k, self.lam, self.lam, 1.0 / math.sqrt(self.lam), 1.0 / self.lam)
        return np.where(k < 0, 0.0, special.gammaincc(np.maximum(k, 0) + 1.0, self.lam))

    def sf(self, k):
        k = np.floor(_arr(k))
        if self.big:
            return edgeworth_cdf(k, self.lam, self.lam, 1.0 / math.sqrt(self.lam), 1.0 / self.lam, upper=True)
        return np.where(k < 0, 1.0, special.gammainc(np.maximum(k, 0) + 1.0, self.lam))

    def ppf(self, q):
        q = _arr(q)
        z = special.ndtri(q)
        return np.maximum(np.floor(self.lam + z * math.sqrt(self.lam) + (z * z - 1) / 6.0), 0)

    def mean_sd(self):
        return self.lam, math.sqrt(self.lam)


def edgeworth_cdf(k, mean, var, skew, exkurt, upper=False):
    """P(X <= k) (or P(X > k)) for a lattice law of span 1 with the given cumulants, by the
    Edgeworth expansion with continuity correction; used only for sigma > ~3e3 where the
    neglected terms are < 1e-9 (cross-checked against scipy on the overlap, see selftest)."""
    # Second-order lattice term of the Esseen expansion at the half-integer evaluation points: it is
    # equivalent to using the variance var - 1/12 (validated against exact sums in selftest(): the
    # error is then 1e-10 at sd = 300 and falls like sd^-3).
    sd0 = math.sqrt(var)
    sd = math.sqrt(var - 1.0 / 12.0)
    skew = skew * (sd0 / sd) ** 3
    exkurt = (exkurt * var * var + 1.0 / 120.0) / (sd ** 4)
    x = (np.asarray(k, dtype=np.float64) + 0.5 - mean) / sd
    phi = np.exp(-0.5 * x * x) / math.sqrt(2 * math.pi)
    he2 = x * x - 1
    he3 = x ** 3 - 3 * x
    he5 = x ** 5 - 10 * x ** 3 + 15 * x
    corr = phi * (skew / 6.0 * he2 + exkurt / 24.0 * he3 + skew * skew / 72.0 * he5)
    # lattice (Esseen) correction of order 1/sd vanishes at the half-integer evaluation points
    if upper:
        return np.clip(special.ndtr(-x) + corr, 0.0, 1.0)
    return np.clip(special.ndtr(x) - corr, 0.0, 1.0)


class BinomialLaw(LatticeLaw):
    def __new__(cls, n, p):
        if float(p) > 0.5 and float(p) < 1.0:
            return FlippedBinomialLaw(n, p)
        return super().__new__(cls)

    def __init__(self, n, p):
        self.n, self.p = int(n), float(p)
        self.support = (0, self.n)
        q = 1.0 - self.p
        self.var = self.n * self.p * q
        self.big = self.var > 1e6
        self.loose = False

    def _cum(self):
        n, p = self.n, self.p
        q = 1 - p
        return n * p, self.var, (q - p) / math.sqrt(self.var), (1 - 6 * p * q) / self.var

    def _mode(self):
        """which evaluation route applies (p <= 1/2 here; larger p is handled by FlippedBinomialLaw)"""
        if self.var > 1e6:
            return 'edgeworth'
        if self.n <= 10 ** 6:
            return 'scipy'
        if self.n * self.p <= 2e4:
            return 'table'
        self.loose = True          # scipy's betainc sees the rounded 1 - p: relative error ~ n 2^-53
        return 'scipy'

    def _table(self):
        """exact pmf table in 40-digit arithmetic: ln pmf(k) = sum_{j<k} ln((n-j)/(j+1)) + k ln p + (n-k) ln(1-p),
        with ln(1-p) through log1p (scipy's incomplete beta would use the rounded 1 - p, off by n 2^-53)"""
        if getattr(self, '_tab', None) is None:
            old = mp.mp.dps
            mp.mp.dps = 40
            n, p = self.n, mp.mpf(self.p)
            sd = math.sqrt(max(self.var, 0.0))
            K = int(min(n, math.ceil(self.n * self.p + 14 * sd + 40)))
            lp, lq = mp.log(p), mp.log1p(-p)
            logc = mp.mpf(0)
            pm = []
            for k in range(K + 1):
                pm.append(mp.exp(logc + k * lp + (n - k) * lq))
                logc += mp.log(mp.mpf(n - k) / (k + 1))
            cum, acc = [], mp.mpf(0)
            for v in pm:
                acc += v
                cum.append(acc)
            up, acc = [], mp.mpf(0)
            for v in reversed(pm):
                up.append(acc)
                acc += v
            up.reverse()
            self._tab = (K, [float(c) for c in cum], [float(u) for u in up])
            mp.mp.dps = old
        return self._tab

    def _tab_eval(self, k, upper):
        K, cum, up = self._table()
        out = []
        for v in k:
            if v < 0:
                out.append(1.0 if upper else 0.0)
            elif v > K:
                out.append(0.0 if upper else 1.0)
            else:
                out.append(up[int(v)] if upper else cum[int(v)])
        return np.array(out)

    def cdf(self, k):
        k = np.floor(_arr(k))
        if self.p == 0.0:
            return np.where(k >= 0, 1.0, 0.0)
        if self.p == 1.0:
            return np.where(k >= self.n, 1.0, 0.0)
        mode = self._mode()
        if mode == 'edgeworth':
            return np.where(k >= self.n, 1.0, edgeworth_cdf(k, *self._cum()))
        if mode == 'table':
            return np.where(k >= self.n, 1.0, self._tab_eval(k, False))
        kk = np.clip(k, 0, self.n)
        r = special.betainc(self.n - kk, kk + 1.0, 1.0 - self.p)
        return np.where(k < 0, 0.0, np.where(k >= self.n, 1.0, r))

    def sf(self, k):
        k = np.floor(_arr(k))
        if self.p == 0.0:
            return np.where(k >= 0, 0.0, 1.0)
        if self.p == 1.0:
            return np.where(k >= self.n, 0.0, 1.0)
        mode = self._mode()
        if mode == 'edgeworth':
            return np.where(k >= self.n, 0.0, edgeworth_cdf(k, *self._cum(), upper=True))
        if mode == 'table':
            return np.where(k >= self.n, 0.0, self._tab_eval(k, True))
        kk = np.clip(k, 0, self.n)
        r = special.betainc(kk + 1.0, self.n - kk, self.p)
        return np.where(k < 0, 1.0, np.where(k >= self.n, 0.0, r))

    def ppf(self, q):
        z = special.ndtri(_arr(q))
        m, v, sk, _ = (self.n * self.p, max(self.var, 1e-300), 0, 0)
        return np.clip(np.floor(m + z * math.sqrt(v)), 0, self.n)

    def mean_sd(self):
        return self.n * self.p, math.sqrt(self.var)


class FlippedBinomialLaw(LatticeLaw):
    """Binomial(n, p) for p > 1/2 as n - Binomial(n, 1 - p); n - k is formed in exact integer arithmetic
    (n may exceed 2^53, where a float64 difference would be off by up to 16 units)"""

    def __init__(self, n, p):
        self.n, self.p = int(n), float(p)
        self.support = (0, self.n)
        self.y = BinomialLaw(self.n, 1.0 - self.p)
        self.var = self.y.var
        self.big = self.y.big

    def _j(self, k):
        return np.array([float(self.n - int(v) - 1) for v in np.floor(_arr(k))])

    def cdf(self, k):
        # P(X <= k) = P(Y >= n - k) = P(Y > n - k - 1)
        return self.y.sf(self._j(k))

    def sf(self, k):
        return self.y.cdf(self._j(k))

    def ppf(self, q):
        yq = self.y.ppf(1.0 - _arr(q))
        return np.array([float(self.n - int(v)) for v in yq])

    def mean_sd(self):
        m, sd = self.y.mean_sd()
        return float(self.n - int(round(m))), sd


class GeometricLaw(LatticeLaw):
    def __init__(self, p):
        self.p = p

    def cdf(self, k):
        k = np.floor(_arr(k))
        return np.where(k < 0, 0.0, -np.expm1((np.maximum(k, 0) + 1.0) * math.log1p(-self.p))) if self.p < 1 else np.where(k >= 0, 1.0, 0.0)

    def sf(self, k):
        k = np.floor(_arr(k))
        return np.where(k < 0, 1.0, np.exp((np.maximum(k, 0) + 1.0) * math.log1p(-self.p))) if self.p < 1 else np.where(k >= 0, 0.0, 1.0)

    def ppf(self, q):
        if self.p >= 1:
            return np.zeros_like(_arr(q))
        return np.maximum(np.ceil(np.log1p(-_arr(q)) / math.log1p(-self.p)) - 1.0, 0.0)

    def mean_sd(self):
        return (1 - self.p) / self.p, math.sqrt(1 - self.p) / self.p


class HypergeometricLaw(LatticeLaw):
    def __init__(self, N, K, n):
        self.N, self.K, self.n = int(N), int(K), int(n)
        self.support = (max(0, self.n + self.K - self.N), min(self.n, self.K))
        N, K, n = float(self.N), float(self.K), float(self.n)
        p = K / N if N else 0.0
        self.mean = n * p
        self.var = n * p * (1 - p) * (N - n) / (N - 1) if N > 1 else 0.0
        self.big = self.var > 1e6 or self.N > 10 ** 9

    def _cum(self):
        N, K, n = float(self.N), float(self.K), float(self.n)
        sk = (N - 2 * K) * math.sqrt(N - 1) * (N - 2 * n) / (math.sqrt(n * K * (N - K) * (N - n)) * (N - 2))
        # excess kurtosis (standard formula)
        a = (N - 1) * N * N * (N * (N + 1) - 6 * K * (N - K) - 6 * n * (N - n)) + 6 * n * K * (N - K) * (N - n) * (5 * N - 6)
        b = n * K * (N - K) * (N - n) * (N - 2) * (N - 3)
        return self.mean, self.var, sk, a / b

    def _table(self):
        """exact pmf table by 50-digit log-gamma over mean +- 12 sd (huge N, moderate variance: scipy hangs there)"""
        if getattr(self, '_tab', None) is None:
            lo, hi = self.support
            sd = math.sqrt(max(self.var, 0.0))
            a = max(lo, int(math.floor(self.mean - 12 * sd - 20)))
            b = min(hi, int(math.ceil(self.mean + 12 * sd + 20)))
            old = mp.mp.dps
            mp.mp.dps = 50
            N, K, n = self.N, self.K, self.n

            def lc(x, y):
                return mp.loggamma(x + 1) - mp.loggamma(y + 1) - mp.loggamma(x - y + 1)
            den = lc(N, n)
            pm = [mp.exp(lc(K, k) + lc(N - K, n - k) - den) for k in range(a, b + 1)]
            cum = []
            acc = mp.mpf(0)
            for v in pm:
                acc += v
                cum.append(acc)
            up = []
            acc = mp.mpf(0)
            for v in reversed(pm):
                up.append(acc)
                acc += v
            up.reverse()
            self._tab = (a, b, [float(c) for c in cum], [float(u) for u in up])
            mp.mp.dps = old
        return self._tab

    def _tab_eval(self, k, upper):
        a, b, cum, up = self._table()
        out = []
        for v in k:
            if v < a:
                out.append(1.0 if upper else 0.0)
            elif v > b:
                out.append(0.0 if upper else 1.0)
            else:
                out.append(up[int(v) - a] if upper else cum[int(v) - a])
        return np.array(out)

    def cdf(self, k):
        k = np.floor(_arr(k))
        lo, hi = self.support
        if self.big and self.var > 1e6:
            r = edgeworth_cdf(k, *self._cum())
        elif self.big:
            r = self._tab_eval(k, False)
        else:
            r = stats.hypergeom.cdf(k, self.N, self.K, self.n)
        return np.where(k < lo, 0.0, np.where(k >= hi, 1.0, r))

    def sf(self, k):
        k = np.floor(_arr(k))
        lo, hi = self.support
        if self.big and self.var > 1e6:
            r = edgeworth_cdf(k, *self._cum(), upper=True)
        elif self.big:
            r = self._tab_eval(k, True)
        else:
            r = stats.hypergeom.sf(k, self.N, self.K, self.n)
        return np.where(k < lo, 1.0, np.where(k >= hi, 0.0, r))

    def ppf(self, q):
        z = special.ndtri(_arr(q))
        return np.clip(np.floor(self.mean + z * math.sqrt(max(self.var, 0))), *self.support)

    def mean_sd(self):
        return self.mean, math.sqrt(max(self.var, 0.0))


def _H(k, s):
    """generalised harmonic number H(k, s) = sum_{j<=k} j^-s via Hurwitz zeta (mpmath)"""
    k = mp.mpf(k)
    s = mp.mpf(s)
    if s == 1:
        return mp.digamma(k + 1) + mp.euler
    return mp.zeta(s) - mp.zeta(s, k + 1)


class ZipfLaw(LatticeLaw):
    """P(X = k) = k^-s / H(n, s), k = 1..floor(n)"""

    def __init__(self, n, s):
        self.n = math.floor(n)
        self.s = s
        self.support = (1, self.n)
        self.Hn = _H(self.n, s) if not math.isinf(s) else mp.mpf(1)

    def _c(self, k):
        out = []
        for v in np.floor(_arr(k)):
            if v < 1:
                out.append(0.0)
            elif v >= self.n:
                out.append(1.0)
            elif math.isinf(self.s):
                out.append(1.0)
            else:
                out.append(float(_H(int(v), self.s) / self.Hn))
        return np.array(out)

    def cdf(self, k):
        return self._c(k)

    def sf(self, k):
        out = []
        for v in np.floor(_arr(k)):
            if v < 1:
                out.append(1.0)
            elif v >= self.n or math.isinf(self.s):
                out.append(0.0)
            else:
                out.append(float((self.Hn - _H(int(v), self.s)) / self.Hn))
        return np.array(out)

    def _ppf1(self, q):
        lo, hi = 1, self.n
        while lo < hi:
            mid = (lo + hi) // 2
            if self._c([mid])[0] >= q:
                hi = mid
            else:
                lo = mid + 1
        return float(lo)


class ZetaLaw(LatticeLaw):
    def __init__(self, s):
        self.s = s
        self.z = mp.zeta(s)
        self.support = (1, math.inf)

    def cdf(self, k):
        return 1.0 - self.sf(k)

    def sf(self, k):
        out = []
        for v in np.floor(_arr(k)):
            if v < 1:
                out.append(1.0)
            elif not math.isfinite(v):
                out.append(0.0)
            else:
                out.append(float(mp.zeta(self.s, mp.mpf(v) + 1) / self.z))
        return np.array(out)

    def cdf(self, k):
        out = []
        for v in np.floor(_arr(k)):
            if v < 1:
                out.append(0.0)
            elif not math.isfinite(v):
                out.append(1.0)
            else:
                out.append(float(1 - mp.zeta(self.s, mp.mpf(v) + 1) / self.z))
        return np.array(out)

    def _ppf1(self, q):
        lo, hi = 1, 1
        while self.cdf([hi])[0] < q and hi < 2 ** 1000:
            hi *= 2
        while lo < hi:
            mid = (lo + hi) // 2
            if self.cdf([mid])[0] >= q:
                hi = mid
            else:
                lo = mid + 1
        return float(lo)


# ------------------------------------------------------------------------------ registry

def get(fam, pv):
    if fam == 'standard_normal':
        return NormalLaw(0.0, 1.0)
    if fam == 'normal':
        return NormalLaw(pv[0], pv[1])
    if fam == 'log_normal':
        return LogNormalLaw(pv[0], pv[1])
    if fam == 'normal_cv':
        # documented: cv = abs(sigma / mu)
        return NormalLaw(pv[0], pv[1] * pv[0])
    if fam == 'log_normal_cv':
        # linear-space mean m and cv: sigma^2 = ln(1 + cv^2), mu = ln(m) - sigma^2 / 2
        s2 = math.log1p(pv[1] * pv[1])
        return LogNormalLaw(math.log(pv[0]) - s2 / 2.0, math.sqrt(s2))
    if fam == 'pert_mean':
        mn, mx, mean, shape = pv
        mode = ((shape + 2.0) * mean - mn - mx) / shape
        r = mx - mn
        return BetaLaw(1.0 + shape * (mode - mn) / r, 1.0 + shape * (mx - mode) / r, mn, mx)
    if fam == 'exp1':
        return ExpLaw(1.0)
    if fam == 'exp':
        return ExpLaw(pv[0])
    if fam == 'gamma':
        return GammaLaw(pv[0], pv[1])
    if fam == 'chi_squared':
        return GammaLaw(pv[0] / 2.0, 2.0)
    if fam == 'student_t':
        return StudentTLaw(pv[0])
    if fam == 'fisher_f':
        return FisherFLaw(pv[0], pv[1])
    if fam == 'beta':
        return BetaLaw(pv[0], pv[1])
    if fam == 'pert':
        mn, mx, mode, shape = pv
        r = mx - mn
        return BetaLaw(1.0 + shape * (mode - mn) / r, 1.0 + shape * (mx - mode) / r, mn, mx)
    if fam == 'triangular':
        return TriangularLaw(pv[0], pv[1], pv[2])
    if fam == 'cauchy':
        return CauchyLaw(pv[0], pv[1])
    if fam == 'pareto':
        return ParetoLaw(pv[0], pv[1])
    if fam == 'weibull':
        return WeibullLaw(pv[0], pv[1])
    if fam == 'gumbel':
        return GumbelLaw(pv[0], pv[1])
    if fam == 'frechet':
        return FrechetLaw(pv[0], pv[1], pv[2])
    if fam == 'skew_normal':
        return SkewNormalLaw(pv[0], pv[1], pv[2])
    if fam == 'inverse_gaussian':
        return InverseGaussianLaw(pv[0], pv[1])
    if fam == 'nig':
        return NigLaw(pv[0], pv[1])
    if fam == 'poisson':
        return PoissonLaw(pv[0])
    if fam == 'zipf':
        return ZipfLaw(pv[0], pv[1])
    if fam == 'zeta':
        return ZetaLaw(pv[0])
    if fam == 'binomial':
        return BinomialLaw(pv[0], pv[1])
    if fam == 'geometric':
        return GeometricLaw(pv[0])
    if fam == 'standard_geometric':
        return GeometricLaw(0.5)
    if fam == 'hypergeometric':
        return HypergeometricLaw(pv[0], pv[1], pv[2])
    raise KeyError(fam)


# ------------------------------------------------------------------------------ self test

DENSITIES = {
    # second route: the density formula transcribed from the rustdoc / textbook, integrated numerically
    'standard_normal': lambda pv: (lambda x: math.exp(-x * x / 2) / math.sqrt(2 * math.pi)),
    'normal': lambda pv: (lambda x: math.exp(-((x - pv[0]) / pv[1]) ** 2 / 2) / (abs(pv[1]) * math.sqrt(2 * math.pi))),
    'log_normal': lambda pv: (lambda x: math.exp(-((math.log(x) - pv[0]) / pv[1]) ** 2 / 2) / (x * abs(pv[1]) * math.sqrt(2 * math.pi)) if x > 0 else 0.0),
    'exp': lambda pv: (lambda x: pv[0] * math.exp(-pv[0] * x) if x >= 0 else 0.0),
    'gamma': lambda pv: (lambda x: math.exp((pv[0] - 1) * math.log(x) - x / pv[1] - math.lgamma(pv[0]) - pv[0] * math.log(pv[1])) if x > 0 else 0.0),
    'chi_squared': lambda pv: (lambda x: math.exp((pv[0] / 2 - 1) * math.log(x) - x / 2 - math.lgamma(pv[0] / 2) - pv[0] / 2 * math.log(2)) if x > 0 else 0.0),
    'student_t': lambda pv: (lambda x: math.exp(math.lgamma((pv[0] + 1) / 2) - math.lgamma(pv[0] / 2)) / math.sqrt(pv[0] * math.pi) * (1 + x * x / pv[0]) ** (-(pv[0] + 1) / 2)),
    'fisher_f': lambda pv: (lambda x: math.exp(0.5 * (pv[0] * math.log(pv[0] * x) + pv[1] * math.log(pv[1]) - (pv[0] + pv[1]) * math.log(pv[0] * x + pv[1])) - math.log(x) - (math.lgamma(pv[0] / 2) + math.lgamma(pv[1] / 2) - math.lgamma((pv[0] + pv[1]) / 2))) if x > 0 else 0.0),
    'beta': lambda pv: (lambda x: math.exp((pv[0] - 1) * math.log(x) + (pv[1] - 1) * math.log1p(-x) - (math.lgamma(pv[0]) + math.lgamma(pv[1]) - math.lgamma(pv[0] + pv[1]))) if 0 < x < 1 else 0.0),
    'cauchy': lambda pv: (lambda x: 1 / (math.pi * pv[1] * (1 + ((x - pv[0]) / pv[1]) ** 2))),
    'pareto': lambda pv: (lambda x: pv[1] * pv[0] ** pv[1] / x ** (pv[1] + 1) if x >= pv[0] else 0.0),
    'weibull': lambda pv: (lambda x: pv[1] / pv[0] * (x / pv[0]) ** (pv[1] - 1) * math.exp(-(x / pv[0]) ** pv[1]) if x > 0 else 0.0),
    'gumbel': lambda pv: (lambda x: math.exp(-(x - pv[0]) / pv[1] - math.exp(-(x - pv[0]) / pv[1])) / pv[1]),
    'frechet': lambda pv: (lambda x: pv[2] / pv[1] * ((x - pv[0]) / pv[1]) ** (-1 - pv[2]) * math.exp(-((x - pv[0]) / pv[1]) ** (-pv[2])) if x > pv[0] else 0.0),
    'skew_normal': lambda pv: (lambda x: 2 / pv[1] * math.exp(-((x - pv[0]) / pv[1]) ** 2 / 2) / math.sqrt(2 * math.pi) * 0.5 * math.erfc(-pv[2] * (x - pv[0]) / pv[1] / SQRT2)),
    'inverse_gaussian': lambda pv: (lambda x: math.sqrt(pv[1] / (2 * math.pi * x ** 3)) * math.exp(-pv[1] * (x - pv[0]) ** 2 / (2 * pv[0] ** 2 * x)) if x > 0 else 0.0),
    'nig': lambda pv: (lambda x: pv[0] * float(special.k1e(pv[0] * math.sqrt(1 + x * x))) * math.exp(-pv[0] * math.sqrt(1 + x * x) + math.sqrt(pv[0] ** 2 - pv[1] ** 2) + pv[1] * x) / (math.pi * math.sqrt(1 + x * x))),
    'triangular': lambda pv: (lambda x: float(TriangularLaw(*pv).pdf(x)[0])),
}

SELFTEST_CASES = [
    ('standard_normal', []), ('normal', [10.0, 10.0]), ('log_normal', [-2.0, 3.0]), ('exp', [3.7]), ('gamma', [0.5, 2.0]), ('gamma', [10.0, 1.0]),
    ('chi_squared', [3.0]), ('student_t', [3.0]), ('student_t', [0.5]), ('fisher_f', [5.0, 2.0]), ('beta', [2.0, 3.0]), ('beta', [0.5, 0.7]),
    ('cauchy', [2.0, 0.5]), ('pareto', [2.5, 3.0]), ('weibull', [2.5, 3.0]), ('gumbel', [2.0, 0.5]), ('frechet', [2.0, 0.5, 3.0]),
    ('skew_normal', [0.0, 1.0, 3.0]), ('skew_normal', [1.0, 2.0, -0.5]), ('inverse_gaussian', [1.0, 30.0]), ('inverse_gaussian', [30.0, 1.0]),
    ('nig', [1.0, 0.5]), ('nig', [2.0, -1.98]), ('triangular', [2.0, 10.0, 3.0]),
]


def selftest(verbose=False):
    """route 1 (closed form / special functions) against route 2 (quadrature of the documented
    density) at quantile points; lattice laws against direct summation; Edgeworth against scipy."""
    worst = 0.0
    rows = []
    for fam, pv in SELFTEST_CASES:
        law = get(fam, pv)
        dens0 = DENSITIES[fam](pv)

        def dens(x, dens0=dens0):
            try:
                return dens0(float(x))
            except (OverflowError, ValueError, ZeroDivisionError):
                return 0.0
        qs = [1e-6, 1e-3, 0.1, 0.5, 0.9, 1 - 1e-3, 1 - 1e-6]
        xs = [float(v) for v in law.ppf(np.array(qs))]
        lo, hi = law.support
        old_dps = mp.mp.dps
        mp.mp.dps = 20
        for q, x in zip(qs, xs):
            if q <= 0.5:
                pts = [lo if math.isfinite(lo) else -mp.inf] + [v for v in xs if v < x] + [x]
                ref = float(mp.quad(dens, pts))
                got = float(law.cdf(x)[0])
            else:
                pts = [x] + [v for v in xs if v > x] + [hi if math.isfinite(hi) else mp.inf]
                ref = float(mp.quad(dens, pts))
                got = float(law.sf(x)[0])
            rel = abs(got - ref) / max(min(ref, 1.0), 1e-300)
            worst = max(worst, rel)
            rows.append((fam, pv, q, x, got, ref, rel))
            if verbose and rel > 1e-7:
                print('DISAGREE', fam, pv, q, x, got, ref, rel)
        mp.mp.dps = old_dps
    # lattice: direct summation
    lat_worst = 0.0
    for fam, pv, ks in [('poisson', [3.0], [0, 2, 5, 12]), ('poisson', [100.0], [60, 100, 140]), ('binomial', [30, 0.3], [0, 5, 9, 20]),
                        ('geometric', [0.2], [0, 3, 20]), ('hypergeometric', [40, 15, 12], [1, 4, 8]), ('zipf', [10.0, 1.5], [1, 3, 9]), ('zipf', [1000.0, 0.7], [1, 10, 500]),
                        ('zipf', [10.0, 1.0], [1, 5]), ('zeta', [1.5], [1, 2, 50]), ('zeta', [3.0], [1, 4])]:
        law = get(fam, pv)
        for k in ks:
            if fam == 'poisson':
                ref = float(mp.nsum(lambda j: mp.exp(-pv[0]) * mp.mpf(pv[0]) ** j / mp.factorial(j), [0, k]))
            elif fam == 'binomial':
                ref = float(sum(mp.binomial(pv[0], j) * mp.mpf(pv[1]) ** j * (1 - mp.mpf(pv[1])) ** (pv[0] - j) for j in range(k + 1)))
            elif fam == 'geometric':
                ref = float(sum(mp.mpf(pv[0]) * (1 - mp.mpf(pv[0])) ** j for j in range(k + 1)))
            elif fam == 'hypergeometric':
                N, K, n = pv
                ref = float(sum(mp.binomial(K, j) * mp.binomial(N - K, n - j) / mp.binomial(N, n) for j in range(k + 1)))
            elif fam == 'zipf':
                n = int(pv[0])
                ref = float(sum(mp.mpf(j) ** (-pv[1]) for j in range(1, k + 1)) / sum(mp.mpf(j) ** (-pv[1]) for j in range(1, n + 1)))
            else:
                ref = float(sum(mp.mpf(j) ** (-pv[0]) for j in range(1, k + 1)) / mp.zeta(pv[0]))
            got = float(law.cdf(k)[0])
            lat_worst = max(lat_worst, abs(got - ref))
            if verbose and abs(got - ref) > 1e-9:
                print('DISAGREE', fam, pv, k, got, ref)
    # Edgeworth vs exact special functions on the overlap (lower tail with cdf, upper tail with sf)
    edge_worst = 0.0
    for lam in [1e5, 1e6, 2e7]:
        # (scipy's gammainc itself is off by 2.6e-8 at lam = 2e7, z = +5 - checked against mpmath - so stop at 3)
        z = np.array([-5, -3, -1, 0, 1, 3])
        k = np.floor(lam + z * math.sqrt(lam))
        lo = z <= 0
        a = edgeworth_cdf(k[lo], lam, lam, 1 / math.sqrt(lam), 1 / lam)
        b = special.gammaincc(k[lo] + 1.0, lam)
        a2 = edgeworth_cdf(k[~lo], lam, lam, 1 / math.sqrt(lam), 1 / lam, upper=True)
        b2 = special.gammainc(k[~lo] + 1.0, lam)
        edge_worst = max(edge_worst, float(np.max(np.abs(a - b))), float(np.max(np.abs(a2 - b2))))
    for n, p in [(10 ** 7, 0.3), (10 ** 9, 0.3), (10 ** 8, 0.01)]:
        law = BinomialLaw(n, p)
        z = np.array([-5, -2, 0, 2, 5.0])
        k = np.floor(n * p + z * math.sqrt(n * p * (1 - p)))
        lo = z <= 0
        a = edgeworth_cdf(k[lo], *law._cum())
        b = special.betainc(n - k[lo], k[lo] + 1.0, 1 - p)
        a2 = edgeworth_cdf(k[~lo], *law._cum(), upper=True)
        b2 = special.betainc(k[~lo] + 1.0, n - k[~lo], p)
        edge_worst = max(edge_worst, float(np.max(np.abs(a - b))), float(np.max(np.abs(a2 - b2))))
    for N, K, n in [(10 ** 7, 3 * 10 ** 6, 4 * 10 ** 6), (10 ** 8, 10 ** 7, 5 * 10 ** 7)]:
        law = HypergeometricLaw(N, K, n)
        z = np.array([-4, -2, 0, 2, 4.0])
        k = np.floor(law.mean + z * math.sqrt(law.var))
        lo = z <= 0
        a = edgeworth_cdf(k[lo], *law._cum())
        b = stats.hypergeom.cdf(k[lo], N, K, n)
        a2 = edgeworth_cdf(k[~lo], *law._cum(), upper=True)
        b2 = stats.hypergeom.sf(k[~lo], N, K, n)
        edge_worst = max(edge_worst, float(np.max(np.abs(a - b))), float(np.max(np.abs(a2 - b2))))
    return {'continuous_points': len(rows), 'continuous_worst_relative_disagreement': worst, 'lattice_worst_abs': lat_worst, 'edgeworth_vs_scipy_worst_abs': edge_worst}


if __name__ == '__main__':
    import sys
    print(selftest(verbose='-v' in sys.argv))
